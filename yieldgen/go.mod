module verif/yieldgen

go 1.23
