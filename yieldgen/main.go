// yieldgen rewrites a scratch copy of goleveldb so that every source of
// scheduling nondeterminism goes through verif/simrt (DESIGN.md §2.1).
//
// It is a go/ast + go/types source-to-source pass that splices replacement
// text into the original file text, so untouched code keeps its exact form.
//
//	yieldgen -root <copy of /repo> [-dense pkg,pkg] [-skip pkg,pkg]
package main

import (
	"flag"
	"fmt"
	"go/ast"
	"go/build"
	"go/importer"
	"go/parser"
	"go/token"
	"go/types"
	"os"
	"path/filepath"
	"sort"
	"strings"
)

const simrtPath = "verif/simrt"

var (
	root  = flag.String("root", "", "root of the scratch copy of the repository")
	dense = flag.String("dense", "leveldb,leveldb/memdb,leveldb/cache,leveldb/table", "packages (relative to root) instrumented at statement granularity")
	skip  = flag.String("skip", "leveldb/testutil", "packages not instrumented")
	verb  = flag.Bool("v", false, "verbose")
)

type edit struct {
	start, end int // byte offsets
	text       string
	ins        bool
}

type rw struct {
	fset    *token.FileSet
	src     []byte
	base    int // file base offset
	info    *types.Info
	pkg     *types.Package
	file    *ast.File
	fname   string
	dense   bool
	labels  map[ast.Node]string
	needPt  map[ast.Stmt]bool
	inList  map[ast.Stmt]bool // statements that are direct members of a statement list
	counts  map[string]int
	pkgUses map[*types.PkgName]int
	pkgRepl map[*types.PkgName]int
	errs    []string
	changed bool
}

func (r *rw) off(p token.Pos) int { return r.fset.Position(p).Offset }

func (r *rw) errorf(n ast.Node, f string, a ...interface{}) {
	r.errs = append(r.errs, fmt.Sprintf("%s: %s", r.fset.Position(n.Pos()), fmt.Sprintf(f, a...)))
}

func (r *rw) qual(p *types.Package) string {
	if p == r.pkg {
		return ""
	}
	return p.Name()
}

func (r *rw) typeStr(t types.Type) string { return types.TypeString(t, r.qual) }

func isRecv(e ast.Expr) (*ast.UnaryExpr, bool) {
	for {
		p, ok := e.(*ast.ParenExpr)
		if !ok {
			break
		}
		e = p.X
	}
	u, ok := e.(*ast.UnaryExpr)
	if ok && u.Op == token.ARROW {
		return u, true
	}
	return nil, false
}

func (r *rw) chanElem(e ast.Expr) types.Type {
	t := r.info.TypeOf(e)
	if t == nil {
		r.errorf(e, "no type for channel expression")
		return types.Typ[types.Invalid]
	}
	c, ok := t.Underlying().(*types.Chan)
	if !ok {
		r.errorf(e, "not a channel: %s", t)
		return types.Typ[types.Invalid]
	}
	return c.Elem()
}

// pkgOf returns the imported package an identifier denotes, if any.
func (r *rw) pkgOf(id *ast.Ident) *types.PkgName {
	if o, ok := r.info.Uses[id].(*types.PkgName); ok {
		return o
	}
	return nil
}

func (r *rw) selPkg(e ast.Expr) (pn *types.PkgName, path, name string) {
	s, ok := e.(*ast.SelectorExpr)
	if !ok {
		return nil, "", ""
	}
	id, ok := s.X.(*ast.Ident)
	if !ok {
		return nil, "", ""
	}
	pn = r.pkgOf(id)
	if pn == nil {
		return nil, "", ""
	}
	return pn, pn.Imported().Path(), s.Sel.Name
}

// label pass: names for scheduling sites and atomic points.
func (r *rw) prepass() {
	var fn string
	ord := 0
	var stack []ast.Node
	lists := func(parent ast.Node, st ast.Stmt) bool {
		switch p := parent.(type) {
		case *ast.BlockStmt:
			for _, s := range p.List {
				if s == st {
					return true
				}
			}
		case *ast.CaseClause:
			for _, s := range p.Body {
				if s == st {
					return true
				}
			}
		case *ast.CommClause:
			for _, s := range p.Body {
				if s == st {
					return true
				}
			}
		}
		return false
	}
	ast.Inspect(r.file, func(n ast.Node) bool {
		if n == nil {
			stack = stack[:len(stack)-1]
			return true
		}
		stack = append(stack, n)
		switch x := n.(type) {
		case *ast.FuncDecl:
			fn = x.Name.Name
			if x.Recv != nil && len(x.Recv.List) == 1 {
				t := x.Recv.List[0].Type
				if s, ok := t.(*ast.StarExpr); ok {
					t = s.X
				}
				if id, ok := t.(*ast.Ident); ok {
					fn = id.Name + "." + fn
				}
			}
			ord = 0
		case *ast.Ident:
			if pn := r.pkgOf(x); pn != nil {
				r.pkgUses[pn]++
			}
		case *ast.CallExpr:
			if _, path, _ := r.selPkg(x.Fun); path == "sync/atomic" {
				// nearest enclosing list statement gets a Point
				for i := len(stack) - 2; i >= 1; i-- {
					st, ok := stack[i].(ast.Stmt)
					if !ok {
						continue
					}
					if lists(stack[i-1], st) {
						r.needPt[st] = true
						break
					}
					if ls, ok := stack[i-1].(*ast.LabeledStmt); ok && ls.Stmt == st && i >= 2 && lists(stack[i-2], ls) {
						r.needPt[ls] = true
						break
					}
				}
			}
		}
		switch n.(type) {
		case ast.Stmt, *ast.UnaryExpr:
			ord++
			r.labels[n] = fmt.Sprintf("%s:%s#%d", r.fname, fn, ord)
		}
		if st, ok := n.(ast.Stmt); ok && len(stack) >= 2 && lists(stack[len(stack)-2], st) {
			r.inList[st] = true
		}
		return true
	})
}

// rmwField splits `x.f++`, `x.f--` and `x.f op= e` on a struct field into a
// read, a scheduling point and a write, for the same reason as rmwAppend.
func (r *rw) rmwField(st ast.Stmt, lhsE ast.Expr, tok token.Token, rhs ast.Expr) (string, bool) {
	if !r.dense || !r.inList[st] {
		return "", false
	}
	sel, ok := lhsE.(*ast.SelectorExpr)
	if !ok || r.info.Selections[sel] == nil {
		return "", false
	}
	pure := true
	ast.Inspect(sel.X, func(n ast.Node) bool {
		switch n.(type) {
		case *ast.CallExpr, *ast.UnaryExpr:
			pure = false
		}
		return pure
	})
	if !pure {
		return "", false
	}
	ops := map[token.Token]string{
		token.INC: "+", token.DEC: "-",
		token.ADD_ASSIGN: "+", token.SUB_ASSIGN: "-", token.MUL_ASSIGN: "*", token.QUO_ASSIGN: "/", token.REM_ASSIGN: "%",
		token.AND_ASSIGN: "&", token.OR_ASSIGN: "|", token.XOR_ASSIGN: "^", token.SHL_ASSIGN: "<<", token.SHR_ASSIGN: ">>", token.AND_NOT_ASSIGN: "&^",
	}
	op, ok := ops[tok]
	if !ok {
		return "", false
	}
	lhs := string(r.src[r.off(sel.Pos()):r.off(sel.End())])
	operand := "1"
	if rhs != nil {
		operand = "(" + r.render(rhs) + ")"
	}
	r.count("rmw-field")
	return fmt.Sprintf("{ __rd := %s; simrt.Point(%q); %s = __rd %s %s }", lhs, r.label(st)+"/rmw", lhs, op, operand), true
}

// rmwAppend recognises `x.f = append(x.f, ...)` on a struct field: a
// read-modify-write that is one statement. Under statement-granular scheduling
// two goroutines could never interleave inside it, so an unsynchronised update
// of a shared slice would stay invisible; the rewrite splits the read from the
// write with a scheduling point in between (equivalent for one goroutine, and
// under correct locking nobody else can run in between anyway).
func (r *rw) rmwAppend(x *ast.AssignStmt) (string, bool) {
	if !r.dense || !r.inList[x] || x.Tok != token.ASSIGN || len(x.Lhs) != 1 || len(x.Rhs) != 1 {
		return "", false
	}
	sel, ok := x.Lhs[0].(*ast.SelectorExpr)
	if !ok || r.info.Selections[sel] == nil {
		return "", false
	}
	call, ok := x.Rhs[0].(*ast.CallExpr)
	if !ok || len(call.Args) < 2 {
		return "", false
	}
	id, ok := call.Fun.(*ast.Ident)
	if !ok || id.Name != "append" {
		return "", false
	}
	if _, isb := r.info.Uses[id].(*types.Builtin); !isb {
		return "", false
	}
	lhs := string(r.src[r.off(sel.Pos()):r.off(sel.End())])
	arg0 := string(r.src[r.off(call.Args[0].Pos()):r.off(call.Args[0].End())])
	if lhs != arg0 {
		return "", false
	}
	// the receiver expression must be free of calls (evaluated twice below)
	pure := true
	ast.Inspect(sel.X, func(n ast.Node) bool {
		if _, ok := n.(*ast.CallExpr); ok {
			pure = false
		}
		return pure
	})
	if !pure {
		return "", false
	}
	var args []string
	for _, a := range call.Args[1:] {
		args = append(args, r.render(a))
	}
	dots := ""
	if call.Ellipsis.IsValid() {
		dots = "..."
	}
	r.count("rmw-append")
	return fmt.Sprintf("{ __rd := %s; simrt.Point(%q); %s = append(__rd, %s%s) }", lhs, r.label(x)+"/rmw", lhs, strings.Join(args, ", "), dots), true
}

func (r *rw) label(n ast.Node) string {
	if l, ok := r.labels[n]; ok {
		return l
	}
	return r.fname
}

func (r *rw) count(k string) { r.counts[k]++; r.changed = true }

// rewriteNode returns replacement text if n is a rewrite target.
func (r *rw) rewriteNode(n ast.Node) (string, bool) {
	switch x := n.(type) {
	case *ast.GoStmt:
		r.count("go")
		name := "go"
		switch f := x.Call.Fun.(type) {
		case *ast.SelectorExpr:
			name = f.Sel.Name
		case *ast.Ident:
			name = f.Name
		case *ast.FuncLit:
			name = "func@" + r.label(x)
		}
		for _, a := range x.Call.Args {
			switch a.(type) {
			case *ast.BasicLit, *ast.Ident:
			default:
				r.errorf(x, "go statement with non-trivial argument not supported")
			}
		}
		return fmt.Sprintf("simrt.Go(%q, func() { %s })", name, r.render(x.Call)), true
	case *ast.SelectStmt:
		r.count("select")
		return r.rewriteSelect(x), true
	case *ast.LabeledStmt:
		if _, ok := x.Stmt.(*ast.SelectStmt); ok {
			r.errorf(x, "labeled select not supported")
		}
		if rs, ok := x.Stmt.(*ast.RangeStmt); ok {
			if t := r.info.TypeOf(rs.X); t != nil {
				if _, ok := t.Underlying().(*types.Map); ok {
					r.errorf(x, "labeled range over map not supported")
				}
			}
		}
		return "", false
	case *ast.SendStmt:
		r.count("send")
		// a send on a closed channel panics (goleveldb relies on recovering
		// from that in cCmd.ack): Post must run on that path too, so that the
		// woken goroutine parks before it executes anything else.
		return fmt.Sprintf("func() { __g := simrt.Pre(%q); defer simrt.Post(__g); %s <- %s }()", r.label(x), r.render(x.Chan), r.render(x.Value)), true
	case *ast.ExprStmt:
		if u, ok := isRecv(x.X); ok {
			r.count("recv")
			return fmt.Sprintf("{ __g := simrt.Pre(%q); <-%s; simrt.Post(__g) }", r.label(x), r.render(u.X)), true
		}
		if c, ok := x.X.(*ast.CallExpr); ok {
			if id, ok := c.Fun.(*ast.Ident); ok && id.Name == "close" && len(c.Args) == 1 {
				if _, isb := r.info.Uses[id].(*types.Builtin); isb {
					r.count("close")
					return fmt.Sprintf("{ simrt.Point(%q); close(%s) }", r.label(x), r.render(c.Args[0])), true
				}
			}
		}
		return "", false
	case *ast.IncDecStmt:
		if rep, ok := r.rmwField(x, x.X, x.Tok, nil); ok {
			return rep, true
		}
		return "", false
	case *ast.AssignStmt:
		if rep, ok := r.rmwAppend(x); ok {
			return rep, true
		}
		if len(x.Lhs) == 1 && len(x.Rhs) == 1 && x.Tok != token.ASSIGN && x.Tok != token.DEFINE {
			if rep, ok := r.rmwField(x, x.Lhs[0], x.Tok, x.Rhs[0]); ok {
				return rep, true
			}
		}
		if len(x.Lhs) == 2 && len(x.Rhs) == 1 {
			if u, ok := isRecv(x.Rhs[0]); ok {
				r.count("recv")
				elem := r.typeStr(r.chanElem(u.X))
				return fmt.Sprintf("%s, %s %s func() (%s, bool) { __g := simrt.Pre(%q); __v, __ok := <-%s; simrt.Post(__g); return __v, __ok }()",
					r.render(x.Lhs[0]), r.render(x.Lhs[1]), x.Tok.String(), elem, r.label(x), r.render(u.X)), true
			}
		}
		return "", false
	case *ast.UnaryExpr:
		if x.Op == token.ARROW {
			r.count("recv")
			elem := r.typeStr(r.chanElem(x.X))
			return fmt.Sprintf("func() %s { __g := simrt.Pre(%q); __v := <-%s; simrt.Post(__g); return __v }()", elem, r.label(x), r.render(x.X)), true
		}
	case *ast.RangeStmt:
		if t := r.info.TypeOf(x.X); t != nil {
			if _, ok := t.Underlying().(*types.Chan); ok {
				r.errorf(x, "range over channel not supported")
			}
			if mt, ok := t.Underlying().(*types.Map); ok {
				// map iteration order is runtime-random: iterate sorted keys
				// (a legal order) so that one seed is one execution.
				r.count("maprange")
				kt := r.typeStr(mt.Key())
				var b strings.Builder
				fmt.Fprintf(&b, "{ __m := %s; for _, __mk := range simrt.SortedKeys(__m).([]%s) { simrt.Point(%q); ", r.render(x.X), kt, r.label(x))
				tok := x.Tok.String()
				if x.Key != nil && !isBlank(x.Key) {
					fmt.Fprintf(&b, "%s %s __mk; ", r.render(x.Key), tok)
				}
				if x.Value != nil && !isBlank(x.Value) {
					if tok == ":=" {
						fmt.Fprintf(&b, "%s, __mok := __m[__mk]; if !__mok { continue }; ", r.render(x.Value))
					} else {
						fmt.Fprintf(&b, "var __mok bool; %s, __mok = __m[__mk]; if !__mok { continue }; ", r.render(x.Value))
					}
				} else {
					b.WriteString("if _, __mok := __m[__mk]; !__mok { continue }; ")
				}
				b.WriteString("\n")
				b.WriteString(r.renderList(x.Body.List))
				b.WriteString("} }")
				return b.String(), true
			}
		}
		return "", false
	case *ast.SelectorExpr:
		pn, path, name := r.selPkg(x)
		if pn == nil {
			return "", false
		}
		rep := ""
		switch path {
		case "sync":
			switch name {
			case "Mutex", "RWMutex", "WaitGroup", "Once", "Pool":
				rep = "simrt." + name
			case "Cond":
				r.errorf(x, "sync.Cond not supported")
			}
		case "time":
			if name == "Sleep" {
				rep = "simrt.Sleep"
			}
		case "runtime":
			if name == "SetFinalizer" {
				rep = "simrt.SetFinalizer"
			}
		case "math/rand":
			if name == "Intn" {
				rep = "simrt.RandIntn"
			} else if obj := r.info.Uses[x.Sel]; obj != nil {
				if _, isFunc := obj.(*types.Func); isFunc && name != "New" && name != "NewSource" {
					r.errorf(x, "global math/rand.%s not supported", name)
				}
			}
		}
		if rep != "" {
			r.count(path + "." + name)
			r.pkgRepl[pn]++
			return rep, true
		}
	}
	return "", false
}

func (r *rw) commRecv(c ast.Stmt) (*ast.UnaryExpr, []ast.Expr, token.Token) {
	switch s := c.(type) {
	case *ast.ExprStmt:
		u, _ := isRecv(s.X)
		return u, nil, token.ILLEGAL
	case *ast.AssignStmt:
		if len(s.Rhs) == 1 {
			u, _ := isRecv(s.Rhs[0])
			return u, s.Lhs, s.Tok
		}
	}
	return nil, nil, token.ILLEGAL
}

func isBlank(e ast.Expr) bool {
	id, ok := e.(*ast.Ident)
	return ok && id.Name == "_"
}

func (r *rw) rewriteSelect(s *ast.SelectStmt) string {
	var b strings.Builder
	b.WriteString("{\n")
	hasDefault := false
	var args []string
	idx := make([]int, len(s.Body.List))
	k := 0
	for i, c := range s.Body.List {
		cc := c.(*ast.CommClause)
		idx[i] = -1
		if cc.Comm == nil {
			hasDefault = true
			continue
		}
		idx[i] = k
		k++
		if snd, ok := cc.Comm.(*ast.SendStmt); ok {
			elem := r.typeStr(r.chanElem(snd.Chan))
			fmt.Fprintf(&b, "__c%d := %s\nvar __s%d %s = %s\n", i, r.render(snd.Chan), i, elem, r.render(snd.Value))
			args = append(args, fmt.Sprintf("simrt.Snd(__c%d, __s%d)", i, i))
			continue
		}
		u, _, _ := r.commRecv(cc.Comm)
		if u == nil {
			r.errorf(cc, "unsupported comm clause")
			continue
		}
		fmt.Fprintf(&b, "__c%d := %s\n", i, r.render(u.X))
		args = append(args, fmt.Sprintf("simrt.R(__c%d)", i))
	}
	fmt.Fprintf(&b, "__i, __r, __ok := simrt.Select(%q, %v", r.label(s), hasDefault)
	for _, a := range args {
		b.WriteString(", " + a)
	}
	b.WriteString(")\n_, _, _ = __i, __r, __ok\nswitch __i {\n")
	lastReal := -1
	for i := range s.Body.List {
		if idx[i] >= 0 {
			lastReal = i
		}
	}
	for i, c := range s.Body.List {
		cc := c.(*ast.CommClause)
		switch {
		case cc.Comm == nil:
			b.WriteString("default:\n")
		case !hasDefault && i == lastReal:
			// keeps the statement "terminating" when every clause is
			b.WriteString("default:\n")
		default:
			fmt.Fprintf(&b, "case %d:\n", idx[i])
		}
		if cc.Comm != nil {
			if _, ok := cc.Comm.(*ast.SendStmt); !ok {
				u, lhs, tok := r.commRecv(cc.Comm)
				if u != nil && len(lhs) > 0 {
					elem := r.typeStr(r.chanElem(u.X))
					if !isBlank(lhs[0]) {
						fmt.Fprintf(&b, "%s, _ %s __r.(%s)\n", r.render(lhs[0]), tok.String(), elem)
					}
					if len(lhs) == 2 && !isBlank(lhs[1]) {
						fmt.Fprintf(&b, "%s %s __ok\n", r.render(lhs[1]), tok.String())
					}
				}
			}
		}
		b.WriteString(r.renderList(cc.Body))
	}
	b.WriteString("}\n}")
	return b.String()
}

func (r *rw) wantPoint(st ast.Stmt) bool {
	if r.needPt[st] {
		return true
	}
	if !r.dense {
		return false
	}
	switch st.(type) {
	case *ast.EmptyStmt, *ast.CaseClause, *ast.CommClause:
		return false
	}
	return true
}

func (r *rw) pointText(st ast.Stmt) string {
	r.count("point")
	return fmt.Sprintf("simrt.Point(%q); ", r.label(st))
}

func (r *rw) renderList(list []ast.Stmt) string {
	var b strings.Builder
	for _, st := range list {
		if r.wantPoint(st) {
			b.WriteString(r.pointText(st))
		}
		b.WriteString(r.render(st))
		b.WriteString("\n")
	}
	return b.String()
}

func (r *rw) render(n ast.Node) string {
	if rep, ok := r.rewriteNode(n); ok {
		return rep
	}
	return r.renderChildren(n, r.off(n.Pos()), r.off(n.End()))
}

func (r *rw) renderChildren(n ast.Node, start, end int) string {
	var edits []edit
	addListPoints := func(list []ast.Stmt) {
		for _, st := range list {
			if r.wantPoint(st) {
				o := r.off(st.Pos())
				edits = append(edits, edit{o, o, r.pointText(st), true})
			}
		}
	}
	ast.Inspect(n, func(c ast.Node) bool {
		if c == nil {
			return true
		}
		if c != n {
			if rep, ok := r.rewriteNode(c); ok {
				edits = append(edits, edit{r.off(c.Pos()), r.off(c.End()), rep, false})
				return false
			}
		}
		switch x := c.(type) {
		case *ast.BlockStmt:
			addListPoints(x.List)
		case *ast.CaseClause:
			addListPoints(x.Body)
		case *ast.ForStmt:
			o := r.off(x.Body.Lbrace) + 1
			r.count("looppoint")
			edits = append(edits, edit{o, o, fmt.Sprintf(" simrt.Point(%q); ", r.label(x)), true})
		case *ast.RangeStmt:
			o := r.off(x.Body.Lbrace) + 1
			r.count("looppoint")
			edits = append(edits, edit{o, o, fmt.Sprintf(" simrt.Point(%q); ", r.label(x)), true})
		case *ast.ImportSpec:
			return false
		}
		return true
	})
	sort.SliceStable(edits, func(i, j int) bool {
		if edits[i].start != edits[j].start {
			return edits[i].start < edits[j].start
		}
		return edits[i].ins && !edits[j].ins
	})
	var b strings.Builder
	pos := start
	for _, e := range edits {
		if e.start < pos {
			r.errs = append(r.errs, fmt.Sprintf("%s: overlapping edits at offset %d", r.fname, e.start))
			continue
		}
		b.Write(r.src[pos:e.start])
		b.WriteString(e.text)
		pos = e.end
	}
	b.Write(r.src[pos:end])
	return b.String()
}

func (r *rw) rewriteFile() string {
	r.prepass()
	body := r.renderChildren(r.file, 0, len(r.src))
	if !r.changed {
		return ""
	}
	// blank imports whose every use was replaced; add the simrt import.
	type fix struct {
		start, end int
		text       string
	}
	var fixes []fix
	_ = fixes
	out := body
	for _, is := range r.file.Imports {
		var pn *types.PkgName
		if is.Name != nil {
			pn, _ = r.info.Defs[is.Name].(*types.PkgName)
		} else {
			pn, _ = r.info.Implicits[is].(*types.PkgName)
		}
		if pn == nil {
			continue
		}
		if r.pkgUses[pn] > 0 && r.pkgUses[pn] == r.pkgRepl[pn] {
			// imports are untouched by edits before them only if offsets are
			// unchanged; do a textual replacement of the import spec instead.
			old := string(r.src[r.off(is.Pos()):r.off(is.End())])
			neu := "_ " + is.Path.Value
			if strings.Count(out, old) < 1 {
				r.errs = append(r.errs, fmt.Sprintf("%s: cannot blank import %s", r.fname, old))
				continue
			}
			out = strings.Replace(out, old, neu, 1)
		}
	}
	// insert simrt import after the package clause
	pkgEnd := r.off(r.file.Name.End())
	// edits never touch text before the package clause end, so offset is valid
	out = out[:pkgEnd] + "\n\nimport simrt \"" + simrtPath + "\"\n" + out[pkgEnd:]
	return out
}

func main() {
	flag.Parse()
	if *root == "" {
		fmt.Fprintln(os.Stderr, "yieldgen: -root required")
		os.Exit(2)
	}
	absRoot, _ := filepath.Abs(*root)
	denseSet := map[string]bool{}
	for _, p := range strings.Split(*dense, ",") {
		if p != "" {
			denseSet[p] = true
		}
	}
	skipSet := map[string]bool{}
	for _, p := range strings.Split(*skip, ",") {
		if p != "" {
			skipSet[p] = true
		}
	}
	var dirs []string
	filepath.Walk(filepath.Join(absRoot, "leveldb"), func(p string, fi os.FileInfo, err error) error {
		if err == nil && fi.IsDir() {
			dirs = append(dirs, p)
		}
		return nil
	})
	sort.Strings(dirs)
	if err := os.Chdir(absRoot); err != nil {
		fmt.Fprintln(os.Stderr, err)
		os.Exit(2)
	}
	fset := token.NewFileSet()
	ctx := build.Default
	ctx.Dir = absRoot
	imp := importer.ForCompiler(fset, "source", nil)
	total := map[string]int{}
	var allErrs []string
	outputs := map[string]string{}
	for _, dir := range dirs {
		rel, _ := filepath.Rel(absRoot, dir)
		if skipSet[rel] {
			continue
		}
		bp, err := ctx.ImportDir(dir, 0)
		if err != nil {
			if _, ok := err.(*build.NoGoError); ok {
				continue
			}
			fmt.Fprintf(os.Stderr, "yieldgen: %s: %v\n", rel, err)
			os.Exit(2)
		}
		var files []*ast.File
		var names []string
		srcs := map[string][]byte{}
		for _, f := range bp.GoFiles {
			full := filepath.Join(dir, f)
			src, err := os.ReadFile(full)
			if err != nil {
				fmt.Fprintln(os.Stderr, err)
				os.Exit(2)
			}
			af, err := parser.ParseFile(fset, full, src, parser.ParseComments)
			if err != nil {
				fmt.Fprintf(os.Stderr, "yieldgen: parse %s: %v\n", full, err)
				os.Exit(2)
			}
			files = append(files, af)
			names = append(names, full)
			srcs[full] = src
		}
		info := &types.Info{
			Types:      map[ast.Expr]types.TypeAndValue{},
			Uses:       map[*ast.Ident]types.Object{},
			Defs:       map[*ast.Ident]types.Object{},
			Implicits:  map[ast.Node]types.Object{},
			Selections: map[*ast.SelectorExpr]*types.Selection{},
		}
		var terrs []string
		conf := types.Config{Importer: imp, Error: func(err error) { terrs = append(terrs, err.Error()) }}
		pkg, _ := conf.Check(bp.ImportPath, fset, files, info)
		if len(terrs) > 0 {
			fmt.Fprintf(os.Stderr, "yieldgen: type errors in %s:\n  %s\n", rel, strings.Join(terrs, "\n  "))
			os.Exit(2)
		}
		for i, af := range files {
			r := &rw{
				fset: fset, src: srcs[names[i]], info: info, pkg: pkg, file: af,
				fname: filepath.Base(names[i]), dense: denseSet[rel],
				labels: map[ast.Node]string{}, needPt: map[ast.Stmt]bool{}, inList: map[ast.Stmt]bool{},
				counts: map[string]int{}, pkgUses: map[*types.PkgName]int{}, pkgRepl: map[*types.PkgName]int{},
			}
			out := r.rewriteFile()
			allErrs = append(allErrs, r.errs...)
			for k, v := range r.counts {
				total[k] += v
			}
			if out != "" {
				outputs[names[i]] = out
			}
		}
	}
	if len(allErrs) > 0 {
		fmt.Fprintf(os.Stderr, "yieldgen: unsupported constructs:\n  %s\n", strings.Join(allErrs, "\n  "))
		os.Exit(2)
	}
	for name, out := range outputs {
		if err := os.WriteFile(name, []byte(out), 0o644); err != nil {
			fmt.Fprintln(os.Stderr, err)
			os.Exit(2)
		}
	}
	if *verb {
		var ks []string
		for k := range total {
			ks = append(ks, k)
		}
		sort.Strings(ks)
		for _, k := range ks {
			fmt.Printf("%-24s %d\n", k, total[k])
		}
		fmt.Printf("files rewritten: %d\n", len(outputs))
	}
}
