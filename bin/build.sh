#!/bin/bash
# Builds the simulation binary from the CURRENT working tree of the repository:
# copy -> yieldgen (instrument) -> compile the harness against the copy.
# Prints the path of the binary. Exit 2 on any build trouble (never VIOLATION).
# The binary is cached under /verif/.cache keyed by the content hash of the
# repository sources and of the machinery, so an edited /repo is always rebuilt.
set -u
export GOFLAGS=-mod=mod GOPROXY=off GOSUMDB=off GOTOOLCHAIN=local GONOSUMDB=* GONOSUMCHECK=1 GOFLAGS="-mod=mod"
VERIF=/verif
REPO=${VERIF_REPO:-/repo}
CACHE=$VERIF/.cache
GO=go1.26.8
mkdir -p "$CACHE"
fail() { echo "build.sh: $*" >&2; exit 2; }

hash=$( { cd "$REPO" && find leveldb go.mod go.sum -type f \( -name '*.go' -o -name 'go.mod' -o -name 'go.sum' \) ! -name '*_test.go' -print0 | sort -z | xargs -0 sha256sum; cd "$VERIF" && find simrt yieldgen harness -type f \( -name '*.go' -o -name 'go.mod' -o -name 'go.sum' \) -print0 | sort -z | xargs -0 sha256sum; $GO version; } | sha256sum | cut -c1-20 )
BIN=$CACHE/sim-$hash.test
if [ -x "$BIN" ]; then echo "$BIN"; exit 0; fi

# one lock per binary: builds of different trees (scratch worktrees) proceed in
# parallel, concurrent checks of the same tree build it once
exec 9>"$CACHE/build-$hash.lock"
flock 9 || fail "cannot lock"
if [ -x "$BIN" ]; then echo "$BIN"; exit 0; fi

SCR=$(mktemp -d /tmp/verif-build.XXXXXX) || fail "mktemp"
trap 'rm -rf "$SCR"' EXIT
mkdir -p "$SCR/repo"
( cd "$REPO" && tar --exclude=.git -cf - . ) | tar -xf - -C "$SCR/repo" || fail "copy of $REPO failed"

YG=$CACHE/yieldgen
(
  flock 8 || exit 1
  if [ ! -x "$YG" ] || [ -n "$(find $VERIF/yieldgen -newer "$YG" -name '*.go')" ]; then
    ( cd $VERIF/yieldgen && $GO build -o "$YG.tmp" . && mv "$YG.tmp" "$YG" ) >&2 || exit 1
  fi
) 8>"$CACHE/yieldgen.lock" || fail "cannot build yieldgen"
( cd "$SCR/repo" && "$YG" -root "$SCR/repo" ) >&2 || fail "instrumenter rejected the tree"
cat >> "$SCR/repo/go.mod" <<EOF

require verif/simrt v0.0.0

replace verif/simrt => $VERIF/simrt
EOF
sed -e "s#^replace github.com/syndtr/goleveldb => .*#replace github.com/syndtr/goleveldb => $SCR/repo#" $VERIF/harness/go.mod > "$SCR/harness.mod"
cp $VERIF/harness/go.sum "$SCR/harness.sum" 2>/dev/null || cp "$REPO/go.sum" "$SCR/harness.sum"
( cd $VERIF/harness && $GO test -c -modfile="$SCR/harness.mod" -o "$BIN.tmp" ./sim ) >&2 || fail "harness does not compile against the instrumented tree"
mv "$BIN.tmp" "$BIN"
rm -f "$CACHE/build-$hash.lock"
# keep the six newest binaries, and never remove one younger than two hours
# (a long-running check may still be using it)
ls -t $CACHE/sim-*.test 2>/dev/null | tail -n +7 | while read f; do
  [ -n "$(find "$f" -mmin +120 2>/dev/null)" ] && rm -f "$f"
done
echo "$BIN"
