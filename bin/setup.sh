#!/bin/bash
# Offline setup: warm the Go build cache (std lib for go1.26.8, harness deps) and
# build the simulation binary once from the current /repo tree.
export GOFLAGS=-mod=mod GOPROXY=off GOSUMDB=off GOTOOLCHAIN=local
cd /verif || exit 1
mkdir -p .cache evidence replays
bin/build.sh >/dev/null || { echo "setup: build failed" >&2; exit 1; }
echo "setup ok"
