package simrt

import (
	"fmt"
	"math/rand"
	"reflect"
	"runtime"
	"sort"
	"sync"
)

// Mutex replaces sync.Mutex. Under a scheduler it blocks durably (on the
// goroutine's wake channel), yields before acquiring and lets the seeded
// scheduler decide which contender wins after an Unlock.
type Mutex struct {
	real    sync.Mutex
	locked  bool
	owner   *G
	waiters []*G
}

func (m *Mutex) Lock() {
	s := cur.Load()
	if s == nil {
		m.real.Lock()
		return
	}
	g := s.active
	if g == nil {
		// scheduler context or foreign goroutine: only legal when free.
		if m.locked {
			panic("simrt: Mutex.Lock from non-simulated goroutine would block")
		}
		m.locked = true
		return
	}
	s.point(g, "~mutex.lock")
	for m.locked {
		m.waiters = append(m.waiters, g)
		s.wait(g, "mutex.wait")
	}
	m.locked = true
	m.owner = g
}

func (m *Mutex) Unlock() {
	s := cur.Load()
	if s == nil {
		m.real.Unlock()
		return
	}
	if !m.locked {
		panic("sync: unlock of unlocked mutex")
	}
	m.locked = false
	m.owner = nil
	w := m.waiters
	m.waiters = nil
	for _, g := range w {
		s.ready(g)
	}
	if g := s.active; g != nil {
		s.point(g, "~mutex.unlock")
	}
}

// Owner returns the goroutine holding the lock (reports only).
func (m *Mutex) Owner() *G { return m.owner }

// RWMutex replaces sync.RWMutex and reproduces its writer preference: a
// pending Lock blocks new RLocks.
type RWMutex struct {
	real     sync.RWMutex
	readers  int
	writer   bool
	pendingW int
	waiters  []*G
}

func (m *RWMutex) wakeAll(s *Sched) {
	w := m.waiters
	m.waiters = nil
	for _, g := range w {
		s.ready(g)
	}
}

func (m *RWMutex) Lock() {
	s := cur.Load()
	if s == nil {
		m.real.Lock()
		return
	}
	g := s.active
	if g == nil {
		if m.writer || m.readers > 0 {
			panic("simrt: RWMutex.Lock from non-simulated goroutine would block")
		}
		m.writer = true
		return
	}
	s.point(g, "~rwmutex.lock")
	m.pendingW++
	for m.writer || m.readers > 0 {
		m.waiters = append(m.waiters, g)
		s.wait(g, "rwmutex.wait")
	}
	m.pendingW--
	m.writer = true
}

func (m *RWMutex) Unlock() {
	s := cur.Load()
	if s == nil {
		m.real.Unlock()
		return
	}
	if !m.writer {
		panic("sync: Unlock of unlocked RWMutex")
	}
	m.writer = false
	m.wakeAll(s)
	if g := s.active; g != nil {
		s.point(g, "~rwmutex.unlock")
	}
}

func (m *RWMutex) RLock() {
	s := cur.Load()
	if s == nil {
		m.real.RLock()
		return
	}
	g := s.active
	if g == nil {
		if m.writer {
			panic("simrt: RWMutex.RLock from non-simulated goroutine would block")
		}
		m.readers++
		return
	}
	s.point(g, "~rwmutex.rlock")
	for m.writer || m.pendingW > 0 {
		m.waiters = append(m.waiters, g)
		s.wait(g, "rwmutex.rwait")
	}
	m.readers++
}

func (m *RWMutex) RUnlock() {
	s := cur.Load()
	if s == nil {
		m.real.RUnlock()
		return
	}
	if m.readers <= 0 {
		panic("sync: RUnlock of unlocked RWMutex")
	}
	m.readers--
	if m.readers == 0 {
		m.wakeAll(s)
	}
	if g := s.active; g != nil {
		s.point(g, "~rwmutex.runlock")
	}
}

// RLocker mirrors sync.RWMutex.RLocker.
func (m *RWMutex) RLocker() sync.Locker { return (*rlocker)(m) }

type rlocker RWMutex

func (r *rlocker) Lock()   { (*RWMutex)(r).RLock() }
func (r *rlocker) Unlock() { (*RWMutex)(r).RUnlock() }

// WaitGroup replaces sync.WaitGroup.
type WaitGroup struct {
	real    sync.WaitGroup
	n       int
	waiters []*G
}

func (w *WaitGroup) Add(delta int) {
	s := cur.Load()
	if s == nil {
		w.real.Add(delta)
		return
	}
	w.n += delta
	if w.n < 0 {
		panic("sync: negative WaitGroup counter")
	}
	if w.n == 0 {
		ws := w.waiters
		w.waiters = nil
		for _, g := range ws {
			s.ready(g)
		}
	}
}

func (w *WaitGroup) Done() { w.Add(-1) }

func (w *WaitGroup) Wait() {
	s := cur.Load()
	if s == nil {
		w.real.Wait()
		return
	}
	g := s.active
	if g == nil {
		if w.n > 0 {
			panic("simrt: WaitGroup.Wait from non-simulated goroutine would block")
		}
		return
	}
	s.point(g, "~wg.wait")
	for w.n > 0 {
		w.waiters = append(w.waiters, g)
		s.wait(g, "wg.waiting")
	}
}

// Once replaces sync.Once.
type Once struct {
	real sync.Once
	m    Mutex
	done bool
}

func (o *Once) Do(f func()) {
	s := cur.Load()
	if s == nil {
		o.real.Do(f)
		return
	}
	if o.done {
		return
	}
	o.m.Lock()
	defer o.m.Unlock()
	if !o.done {
		defer func() { o.done = true }()
		f()
	}
}

// Pool replaces sync.Pool with a deterministic LIFO free list.
type Pool struct {
	New   func() interface{}
	real  sync.Pool
	items []interface{}
}

func (p *Pool) Get() interface{} {
	s := cur.Load()
	if s == nil {
		if v := p.real.Get(); v != nil {
			return v
		}
		if p.New != nil {
			return p.New()
		}
		return nil
	}
	if g := s.active; g != nil {
		s.point(g, "~pool.get")
	}
	if n := len(p.items); n > 0 {
		if s.dropThr == 0 || s.rng3.next()&0xffffffff >= s.dropThr {
			v := p.items[n-1]
			p.items[n-1] = nil
			p.items = p.items[:n-1]
			return v
		}
	}
	if p.New != nil {
		return p.New()
	}
	return nil
}

func (p *Pool) Put(v interface{}) {
	s := cur.Load()
	if s == nil {
		p.real.Put(v)
		return
	}
	if len(p.items) < 64 {
		p.items = append(p.items, v)
	}
}

// Event is a one-shot latch for harness code.
type Event struct {
	set     bool
	waiters []*G
}

func (e *Event) Set() {
	s := cur.Load()
	if e.set {
		return
	}
	e.set = true
	if s == nil {
		return
	}
	ws := e.waiters
	e.waiters = nil
	for _, g := range ws {
		s.ready(g)
	}
}

func (e *Event) IsSet() bool { return e.set }

func (e *Event) Wait() {
	s := cur.Load()
	if s == nil {
		panic("simrt: Event.Wait without scheduler")
	}
	g := s.active
	for !e.set {
		e.waiters = append(e.waiters, g)
		s.wait(g, "event.wait")
	}
}

// Case is one communication clause of a rewritten select statement.
type Case struct {
	send bool
	ch   reflect.Value
	val  reflect.Value
}

// R builds a receive case.
func R(ch interface{}) Case { return Case{ch: reflect.ValueOf(ch)} }

// Snd builds a send case.
func Snd(ch interface{}, v interface{}) Case {
	c := reflect.ValueOf(ch)
	var x reflect.Value
	if v == nil {
		x = reflect.Zero(c.Type().Elem())
	} else {
		x = reflect.ValueOf(v)
	}
	return Case{send: true, ch: c, val: x}
}

func iface(v reflect.Value) interface{} {
	if !v.IsValid() {
		return nil
	}
	return v.Interface()
}

// Select replaces a select statement. It returns the index of the chosen
// case (-1 for default), the received value and the receive's ok flag.
func Select(site string, hasDefault bool, cases ...Case) (int, interface{}, bool) {
	s := cur.Load()
	var g *G
	if s != nil {
		g = s.active
	}
	if g == nil {
		// pass-through: the runtime chooses.
		rc := make([]reflect.SelectCase, 0, len(cases)+1)
		for _, c := range cases {
			if c.send {
				rc = append(rc, reflect.SelectCase{Dir: reflect.SelectSend, Chan: c.ch, Send: c.val})
			} else {
				rc = append(rc, reflect.SelectCase{Dir: reflect.SelectRecv, Chan: c.ch})
			}
		}
		if hasDefault {
			rc = append(rc, reflect.SelectCase{Dir: reflect.SelectDefault})
		}
		i, v, ok := reflect.Select(rc)
		if hasDefault && i == len(cases) {
			return -1, nil, false
		}
		return i, iface(v), ok
	}
	g = Pre(site)
	// Post also on the panic path (send on a closed channel)
	defer Post(g)
	n := len(cases)
	// seeded polling order
	var permBuf [8]int
	perm := permBuf[:0]
	for i := 0; i < n; i++ {
		perm = append(perm, i)
	}
	for i := n - 1; i > 0; i-- {
		j := s.rng.intn(i + 1)
		perm[i], perm[j] = perm[j], perm[i]
	}
	for _, i := range perm {
		c := cases[i]
		if !c.ch.IsValid() || c.ch.IsNil() {
			continue
		}
		if c.send {
			if c.ch.TrySend(c.val) {
				return i, nil, false
			}
		} else {
			v, ok := c.ch.TryRecv()
			if v.IsValid() {
				return i, iface(v), ok
			}
		}
	}
	if hasDefault {
		return -1, nil, false
	}
	rc := make([]reflect.SelectCase, 0, n)
	for _, c := range cases {
		if c.send {
			rc = append(rc, reflect.SelectCase{Dir: reflect.SelectSend, Chan: c.ch, Send: c.val})
		} else {
			rc = append(rc, reflect.SelectCase{Dir: reflect.SelectRecv, Chan: c.ch})
		}
	}
	i, v, ok := reflect.Select(rc)
	return i, iface(v), ok
}

// RandIntn replaces the global math/rand.Intn.
func RandIntn(n int) int {
	s := cur.Load()
	if s == nil {
		return rand.Intn(n)
	}
	return s.rng2.intn(n)
}

// SetFinalizer replaces runtime.SetFinalizer: GC timing is not simulated.
func SetFinalizer(obj interface{}, finalizer interface{}) {
	if cur.Load() == nil {
		runtime.SetFinalizer(obj, finalizer)
	}
}

// Rand64 exposes the scheduler's user randomness stream to the harness.
func Rand64() uint64 {
	s := cur.Load()
	if s == nil {
		return rand.Uint64()
	}
	return s.rng2.next()
}

// SortedKeys returns the keys of map m as a sorted slice of the key type, so
// that instrumented code iterates maps in a reproducible (and legal) order.
func SortedKeys(m interface{}) interface{} {
	v := reflect.ValueOf(m)
	kt := v.Type().Key()
	keys := v.MapKeys()
	sort.Slice(keys, func(i, j int) bool {
		a, b := keys[i], keys[j]
		switch kt.Kind() {
		case reflect.Int, reflect.Int8, reflect.Int16, reflect.Int32, reflect.Int64:
			return a.Int() < b.Int()
		case reflect.Uint, reflect.Uint8, reflect.Uint16, reflect.Uint32, reflect.Uint64, reflect.Uintptr:
			return a.Uint() < b.Uint()
		case reflect.String:
			return a.String() < b.String()
		}
		return fmt.Sprint(a.Interface()) < fmt.Sprint(b.Interface())
	})
	out := reflect.MakeSlice(reflect.SliceOf(kt), 0, len(keys))
	for _, k := range keys {
		out = reflect.Append(out, k)
	}
	return out.Interface()
}
