package simrt

import (
	"testing"
	"time"
)

func toy(seed uint64, strat int) Result {
	var t *testing.T
	_ = t
	return Result{}
}

func runToy(t *testing.T, seed uint64, strat int) (Result, []int) {
	var order []int
	cfg := Config{Seed: seed, Strategy: strat, YieldP: 0.3, PCTDepth: 3, PCTHorizon: 2000, StallP: 0.01, KeepTrace: 10}
	res := Run(t, cfg, func() {
		var mu Mutex
		var wg WaitGroup
		ch := make(chan int)
		done := make(chan struct{})
		for i := 0; i < 4; i++ {
			i := i
			wg.Add(1)
			Go("w", func() {
				defer wg.Done()
				for j := 0; j < 50; j++ {
					mu.Lock()
					Point("x")
					order = append(order, i)
					mu.Unlock()
					g := Pre("send")
					ch <- i*100 + j
					Post(g)
					if j%10 == 0 {
						Sleep(time.Duration(i+1) * time.Millisecond)
					}
				}
			})
		}
		Go("r", func() {
			n := 0
			tm := time.NewTicker(3 * time.Millisecond)
			for n < 200 {
				i, v, _ := Select("sel", false, R(ch), R(tm.C))
				if i == 0 {
					n++
					order = append(order, v.(int))
				} else {
					order = append(order, -1)
				}
			}
			tm.Stop()
			close(done)
		})
		wg.Wait()
		g := Pre("recv")
		<-done
		Post(g)
	})
	return res, order
}

func TestDeterminism(t *testing.T) {
	for strat := 0; strat < 2; strat++ {
		for seed := uint64(1); seed < 30; seed++ {
			r1, o1 := runToy(t, seed, strat)
			r2, o2 := runToy(t, seed, strat)
			if r1.TraceHash != r2.TraceHash || len(o1) != len(o2) {
				t.Fatalf("seed %d strat %d: nondeterministic %x %x", seed, strat, r1.TraceHash, r2.TraceHash)
			}
			for i := range o1 {
				if o1[i] != o2[i] {
					t.Fatalf("order differs")
				}
			}
			if r1.Hang != nil || r1.Panic != nil || r1.Leaked {
				t.Fatalf("bad result %+v", r1)
			}
			if seed == 1 {
				t.Logf("strat %d steps=%d dec=%d sw=%d sim=%v hash=%x pairs=%d", strat, r1.Steps, r1.Decisions, r1.Switches, r1.SimTime, r1.TraceHash, r1.SwitchPairs)
			}
		}
	}
}

func TestHang(t *testing.T) {
	res := Run(t, Config{Seed: 1, YieldP: 0.5}, func() {
		var a, b Mutex
		var wg WaitGroup
		wg.Add(2)
		Go("a", func() { a.Lock(); Yield("y"); b.Lock(); wg.Done() })
		Go("b", func() { b.Lock(); Yield("y"); a.Lock(); wg.Done() })
		wg.Wait()
	})
	if res.Hang == nil {
		t.Fatalf("expected hang, got %+v", res)
	}
	t.Logf("hang at %v: %+v", res.Hang.SimTime, res.Hang.Goroutines)
}

func TestKill(t *testing.T) {
	res := Run(t, Config{Seed: 1, YieldP: 0.5}, func() {
		var ev Event
		GoEpoch(1, "victim", func() {
			Go("child", func() { Sleep(time.Hour) })
			Yield("y")
			ev.Set()
			KillEpoch(1)
			panic("not reached")
		})
		ev.Wait()
		Yield("z")
	})
	if res.Hang != nil || res.Panic != nil {
		t.Fatalf("%+v", res)
	}
	t.Logf("%+v", res)
}
