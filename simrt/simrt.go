// Package simrt is the seeded scheduler that instrumented goleveldb code and
// the verification harness run under. With no scheduler installed (cur ==
// nil) every primitive degrades to the Go primitive it replaces
// ("pass-through"), so the instrumented tree behaves like the shipped one.
//
// Protocol (see DESIGN.md §2.2): inside a testing/synctest bubble the root
// goroutine is the scheduler. Every other goroutine is created through Go and
// is at any moment active (at most one), parked (runnable, waiting on its
// private wake channel), waiting (blocked in a simrt primitive) or blocked in
// a real channel / timer operation. The scheduler loops: synctest.Wait();
// pick one parked goroutine by the seeded strategy; release it.
package simrt

import (
	"fmt"
	"runtime/debug"
	"sort"
	"sync"
	"sync/atomic"
	"testing"
	"testing/synctest"
	"time"
)

type gstate int32

const (
	stRunning  gstate = iota // the active goroutine
	stBlocking               // active, about to do a real operation that may block
	stBlocked                // descheduled while inside a real blocking operation
	stWaiting                // blocked inside a simrt primitive (mutex, waitgroup, ...)
	stParked                 // runnable, waiting to be chosen
	stDone
	stDead
)

func (s gstate) String() string {
	return [...]string{"running", "blocking", "blocked", "waiting", "parked", "done", "dead"}[s]
}

// G is one simulated goroutine.
type G struct {
	s       *Sched
	ID      int
	Name    string
	Epoch   int
	state   gstate
	dead    bool
	idle    bool // parked in Quiesce: only chosen when nothing else is runnable
	starved bool // "slow node": chosen only rarely while others are runnable
	wake    chan struct{}
	site    string // last scheduling site
	prio    int64  // PCT priority
	Op      string // harness annotation: the client call in progress
	last    string // last instrumented source site passed (reports)
}

// Strategy selects how the scheduler picks.
const (
	StratRandom = 0
	StratPCT    = 1
)

// Config is everything that decides a schedule.
type Config struct {
	Seed       uint64
	Strategy   int
	YieldP     float64 // probability that an optional scheduling point yields (random walk)
	PCTDepth   int     // number of priority change points
	PCTHorizon int64   // change points are drawn from [0, PCTHorizon)
	StallP     float64 // probability per decision that fake time is advanced instead
	PoolDropP  float64 // probability that Pool.Get ignores a cached item
	MaxSteps   int64
	HangAfter  time.Duration // fake time without progress after which the run is a hang
	KeepTrace  int           // keep the last N decisions for reports
}

// HangReport describes a run that stopped making progress.
type HangReport struct {
	SimTime    time.Duration
	Goroutines []GInfo
}

// GInfo is the externally visible state of a goroutine.
type GInfo struct {
	ID    int
	Name  string
	Epoch int
	State string
	Site  string
	Op    string
}

// PanicReport describes a panic that escaped a simulated goroutine.
type PanicReport struct {
	G     GInfo
	Value string
	Stack string
}

// Result is what one simulated run produced at the scheduler level.
type Result struct {
	Steps       int64
	Decisions   int64
	Switches    int64
	SimTime     time.Duration
	TraceHash   uint64
	SwitchPairs int
	Goroutines  int
	Stalls      int64
	Hang        *HangReport
	Panic       *PanicReport
	StepLimit   bool
	Aborted     string
	Leaked      bool
	LastTrace   []string
}

// Sched is one run's scheduler.
type Sched struct {
	cfg    Config
	mu     sync.Mutex // real mutex: guards state transitions made by goroutines that just woke
	gs     []*G
	parked []*G
	active *G
	rng    rng
	rng2   rng // user-visible randomness (RandIntn)
	rng3   rng // pool decisions

	steps     int64
	decisions int64
	switches  int64
	stalls    int64
	hash      uint64
	start     time.Time
	progress  time.Time
	yieldThr  uint64
	stallThr  uint64
	dropThr   uint64
	pctPoints []int64
	pctLow    int64
	lastG     *G
	pairs     map[string]struct{}
	abort     string
	hang      *HangReport
	pan       *PanicReport
	stepLimit bool
	trace     []string
	done      bool
	atomic    int
	idleAcc   time.Duration
}

var cur atomic.Pointer[Sched]

// Active reports whether a scheduler is installed.
func Active() bool { return cur.Load() != nil }

type rng struct{ s uint64 }

func (r *rng) next() uint64 {
	r.s += 0x9e3779b97f4a7c15
	z := r.s
	z = (z ^ (z >> 30)) * 0xbf58476d1ce4e5b9
	z = (z ^ (z >> 27)) * 0x94d049bb133111eb
	return z ^ (z >> 31)
}

func (r *rng) intn(n int) int {
	if n <= 1 {
		return 0
	}
	return int(r.next() % uint64(n))
}

func thr(p float64) uint64 {
	if p <= 0 {
		return 0
	}
	if p >= 1 {
		return 1 << 32
	}
	return uint64(p * float64(uint64(1)<<32))
}

func newSched(cfg Config) *Sched {
	if cfg.MaxSteps == 0 {
		cfg.MaxSteps = 8_000_000
	}
	if cfg.HangAfter == 0 {
		cfg.HangAfter = 600 * time.Second
	}
	s := &Sched{cfg: cfg, pairs: map[string]struct{}{}}
	s.rng.s = cfg.Seed*0x9e3779b97f4a7c15 + 1
	s.rng2.s = cfg.Seed*0xd1342543de82ef95 + 2
	s.rng3.s = cfg.Seed*0xaf251af3b0f025b5 + 3
	s.yieldThr = thr(cfg.YieldP)
	s.stallThr = thr(cfg.StallP)
	s.dropThr = thr(cfg.PoolDropP)
	s.hash = 1469598103934665603
	if cfg.Strategy == StratPCT {
		h := cfg.PCTHorizon
		if h <= 0 {
			h = 100000
		}
		for i := 0; i < cfg.PCTDepth; i++ {
			s.pctPoints = append(s.pctPoints, int64(s.rng.next()%uint64(h)))
		}
		sort.Slice(s.pctPoints, func(i, j int) bool { return s.pctPoints[i] < s.pctPoints[j] })
		s.pctLow = -1
	}
	return s
}

func (s *Sched) mix(v uint64) {
	s.hash ^= v
	s.hash *= 1099511628211
}

func strhash(x string) uint64 {
	h := uint64(1469598103934665603)
	for i := 0; i < len(x); i++ {
		h ^= uint64(x[i])
		h *= 1099511628211
	}
	return h
}

// Note folds a harness event into the run's trace hash (determinism check).
func Note(v uint64) {
	if s := cur.Load(); s != nil {
		s.mix(v)
	}
}

// NoteStr folds a string into the trace hash.
func NoteStr(x string) { Note(strhash(x)) }

func (s *Sched) newG(name string, epoch int) *G {
	g := &G{s: s, ID: len(s.gs), Name: name, Epoch: epoch, wake: make(chan struct{}, 1)}
	if s.cfg.Strategy == StratPCT {
		g.prio = int64(s.rng.next()%1000000) + 1
	}
	s.gs = append(s.gs, g)
	return g
}

func (s *Sched) addParked(g *G) { s.parked = append(s.parked, g) }

func (s *Sched) removeParked(g *G) {
	for i, p := range s.parked {
		if p == g {
			s.parked = append(s.parked[:i], s.parked[i+1:]...)
			return
		}
	}
}

func (g *G) info() GInfo {
	return GInfo{ID: g.ID, Name: g.Name, Epoch: g.Epoch, State: g.state.String(), Site: g.site, Op: g.Op}
}

func (s *Sched) spawn(g *G, fn func()) {
	g.state = stParked
	s.mu.Lock()
	s.addParked(g)
	s.mu.Unlock()
	go func() {
		<-g.wake
		defer func() {
			if r := recover(); r != nil {
				// format first: the value's Error/String method may be
				// instrumented code that reaches a scheduling point, which
				// must not find the scheduler's lock held by this goroutine
				val, stack := fmt.Sprint(r), string(debug.Stack())
				s.mu.Lock()
				if s.pan == nil {
					s.pan = &PanicReport{G: g.info(), Value: val, Stack: stack}
				}
				s.mu.Unlock()
			}
			s.mu.Lock()
			g.state = stDone
			s.mu.Unlock()
		}()
		fn()
	}()
}

// Go starts fn as a simulated goroutine in the caller's epoch.
func Go(name string, fn func()) {
	s := cur.Load()
	if s == nil {
		go fn()
		return
	}
	epoch := 0
	if a := s.active; a != nil {
		epoch = a.Epoch
	}
	s.spawn(s.newG(name, epoch), fn)
}

// GoEpoch starts fn in an explicit epoch (harness use).
func GoEpoch(epoch int, name string, fn func()) {
	s := cur.Load()
	if s == nil {
		go fn()
		return
	}
	s.spawn(s.newG(name, epoch), fn)
}

// Cur returns the active goroutine (nil in pass-through or scheduler context).
func Cur() *G {
	s := cur.Load()
	if s == nil {
		return nil
	}
	return s.active
}

func (s *Sched) shouldYield(g *G) bool {
	switch s.cfg.Strategy {
	case StratPCT:
		if len(s.pctPoints) > 0 && s.steps >= s.pctPoints[0] {
			s.pctPoints = s.pctPoints[1:]
			g.prio = s.pctLow
			s.pctLow--
			return true
		}
		return false
	default:
		if s.yieldThr == 0 {
			return false
		}
		return s.rng.next()&0xffffffff < s.yieldThr
	}
}

func (s *Sched) yield(g *G, site string) {
	s.mu.Lock()
	g.site = site
	g.state = stParked
	s.addParked(g)
	s.mu.Unlock()
	<-g.wake
}

// PointLog, when non-nil, records every scheduling point passed (debugging).
var PointLog *[]string

// Atomic runs f without optional yields and without consuming scheduler
// randomness (debugging aid: probes that must not perturb the schedule).
func Atomic(f func()) {
	s := cur.Load()
	if s == nil {
		f()
		return
	}
	s.atomic++
	defer func() { s.atomic-- }()
	f()
}

func (s *Sched) point(g *G, site string) {
	if s.atomic > 0 {
		return
	}
	if len(site) > 0 && site[0] != '~' {
		g.last = site
	}
	s.steps++
	if PointLog != nil {
		*PointLog = append(*PointLog, g.Name+"@"+site)
	}
	if s.steps > s.cfg.MaxSteps {
		s.stepLimit = true
		s.mu.Lock()
		g.state = stDead
		g.site = site
		s.mu.Unlock()
		select {}
	}
	if s.shouldYield(g) {
		s.yield(g, site)
	}
}

// Point is an optional scheduling point.
func Point(site string) {
	s := cur.Load()
	if s == nil {
		return
	}
	g := s.active
	if g == nil {
		return
	}
	s.point(g, site)
}

// Yield always hands control back to the scheduler.
func Yield(site string) {
	s := cur.Load()
	if s == nil {
		return
	}
	g := s.active
	if g == nil {
		return
	}
	s.steps++
	s.yield(g, site)
}

// Pre is called before a real operation that may block. The returned handle
// must be passed to Post right after the operation.
func Pre(site string) *G {
	s := cur.Load()
	if s == nil {
		return nil
	}
	g := s.active
	if g == nil {
		return nil
	}
	s.point(g, site)
	s.mu.Lock()
	g.state = stBlocking
	g.site = site
	s.mu.Unlock()
	return g
}

// Post is called right after the real operation announced by Pre.
func Post(g *G) {
	if g == nil {
		return
	}
	s := g.s
	s.mu.Lock()
	if g.dead {
		g.state = stDead
		s.mu.Unlock()
		select {}
	}
	if g.state == stBlocking {
		g.state = stRunning
		s.mu.Unlock()
		return
	}
	// We were descheduled while blocked and have now been woken by another
	// goroutine or a timer: become runnable and wait to be chosen.
	g.state = stParked
	s.addParked(g)
	s.mu.Unlock()
	<-g.wake
}

// wait blocks the active goroutine inside a simrt primitive until ready(g).
func (s *Sched) wait(g *G, site string) {
	s.mu.Lock()
	g.state = stWaiting
	g.site = site + "<" + g.last
	s.mu.Unlock()
	<-g.wake
}

// ready makes a waiting goroutine runnable.
func (s *Sched) ready(g *G) {
	s.mu.Lock()
	if !g.dead && g.state == stWaiting {
		g.state = stParked
		s.addParked(g)
	}
	s.mu.Unlock()
}

// Progress records that a client-visible call completed (hang detection).
func Progress() {
	if s := cur.Load(); s != nil {
		s.progress = time.Now()
		s.idleAcc = 0
	}
}

// Sleep replaces time.Sleep in instrumented code.
func Sleep(d time.Duration) {
	g := Pre("sleep")
	time.Sleep(d)
	Post(g)
}

// IdleFor is a deliberate harness sleep of fake time; it does not count as a hang.
func IdleFor(d time.Duration) {
	s := cur.Load()
	if s == nil {
		time.Sleep(d)
		return
	}
	s.progress = time.Now().Add(d)
	Sleep(d)
	s.progress = time.Now()
}

// Quiesce parks the caller until no other goroutine is runnable, i.e. all
// background work has blocked (on channels or timers).
func Quiesce() {
	s := cur.Load()
	if s == nil {
		return
	}
	g := s.active
	if g == nil {
		return
	}
	s.steps++
	s.mu.Lock()
	g.idle = true
	g.site = "quiesce"
	g.state = stParked
	s.addParked(g)
	s.mu.Unlock()
	<-g.wake
	g.idle = false
}

// Abort ends the run at the next scheduler decision.
func Abort(reason string) {
	s := cur.Load()
	if s == nil {
		return
	}
	if s.abort == "" {
		s.abort = reason
	}
	if g := s.active; g != nil {
		s.mu.Lock()
		g.state = stDead
		s.mu.Unlock()
		select {}
	}
}

// KillEpoch abandons every goroutine of the epoch: they never run again. If
// the caller belongs to the epoch it does not return.
func KillEpoch(epoch int) {
	s := cur.Load()
	if s == nil {
		return
	}
	self := s.active
	s.mu.Lock()
	for _, g := range s.gs {
		if g.Epoch == epoch && g.state != stDone {
			g.dead = true
			if g.state == stParked {
				s.removeParked(g)
			}
			if g.state == stParked || g.state == stWaiting || g == self {
				g.state = stDead
			}
		}
	}
	s.mu.Unlock()
	if self != nil && self.Epoch == epoch {
		select {}
	}
}

// SetEpoch moves the calling goroutine to another epoch.
func SetEpoch(epoch int) {
	if g := Cur(); g != nil {
		g.Epoch = epoch
	}
}

// SetOp annotates the calling goroutine with the client call it is executing.
func SetOp(op string) {
	if g := Cur(); g != nil {
		g.Op = op
	}
}

// Now is the bubble's fake time since the run started.
func Now() time.Duration {
	s := cur.Load()
	if s == nil {
		return 0
	}
	return time.Since(s.start)
}

// Steps returns the number of scheduling points passed so far.
func Steps() int64 {
	s := cur.Load()
	if s == nil {
		return 0
	}
	return s.steps
}

// Snapshot lists all goroutines (for reports).
func Snapshot() []GInfo {
	s := cur.Load()
	if s == nil {
		return nil
	}
	return s.snapshot()
}

func (s *Sched) snapshot() []GInfo {
	var out []GInfo
	for _, g := range s.gs {
		if g.state != stDone {
			out = append(out, g.info())
		}
	}
	return out
}

func (s *Sched) pick() *G {
	// candidates: non-idle parked; idle ones only if nothing else.
	var cand, slow []*G
	for _, g := range s.parked {
		switch {
		case g.idle:
		case g.starved:
			slow = append(slow, g)
		default:
			cand = append(cand, g)
		}
	}
	if len(slow) > 0 && (len(cand) == 0 || s.rng.next()%64 == 0) {
		cand = slow
	}
	if len(cand) == 0 {
		cand = append(cand, s.parked...)
	}
	sort.Slice(cand, func(i, j int) bool { return cand[i].ID < cand[j].ID })
	var g *G
	if s.cfg.Strategy == StratPCT {
		g = cand[0]
		for _, c := range cand[1:] {
			if c.prio > g.prio {
				g = c
			}
		}
	} else {
		g = cand[s.rng.intn(len(cand))]
	}
	return g
}

func (s *Sched) allDone() bool {
	for _, g := range s.gs {
		if g.state != stDone && g.state != stDead && !g.dead {
			return false
		}
	}
	return true
}

func (s *Sched) loop() {
	idleQ := time.Millisecond
	for {
		synctest.Wait()
		s.mu.Lock()
		if a := s.active; a != nil {
			if a.state == stBlocking {
				a.state = stBlocked
			}
			s.active = nil
		}
		if s.pan != nil || s.abort != "" || s.stepLimit {
			s.mu.Unlock()
			return
		}
		now := time.Now()
		// only time during which nothing was runnable counts (stall
		// decisions advance the clock while work is pending)
		if s.idleAcc > s.cfg.HangAfter && now.Sub(s.progress) > s.cfg.HangAfter {
			s.hang = &HangReport{SimTime: now.Sub(s.start), Goroutines: s.snapshot()}
			s.mu.Unlock()
			return
		}
		if len(s.parked) == 0 {
			if s.allDone() {
				s.done = true
				s.mu.Unlock()
				return
			}
			s.mu.Unlock()
			time.Sleep(idleQ)
			s.idleAcc += idleQ
			if idleQ < 30*time.Second {
				idleQ *= 2
			}
			continue
		}
		idleQ = time.Millisecond
		if s.stallThr != 0 && s.rng.next()&0xffffffff < s.stallThr {
			// advance fake time although goroutines are runnable: timers
			// may fire before a parked goroutine proceeds.
			d := time.Duration(1+s.rng.intn(2000)) * time.Millisecond
			s.stalls++
			s.mix(uint64(d))
			s.mu.Unlock()
			time.Sleep(d)
			continue
		}
		g := s.pick()
		s.removeParked(g)
		g.state = stRunning
		s.active = g
		s.decisions++
		s.mix(uint64(g.ID)<<32 ^ strhash(g.site))
		if s.lastG != g {
			s.switches++
			if s.lastG != nil {
				s.pairs[s.lastG.Name+"@"+s.lastG.site+">"+g.Name+"@"+g.site] = struct{}{}
			}
			s.lastG = g
		}
		if s.cfg.KeepTrace > 0 {
			s.trace = append(s.trace, fmt.Sprintf("%d:%s@%s", g.ID, g.Name, g.site))
			if len(s.trace) > 2*s.cfg.KeepTrace {
				s.trace = append(s.trace[:0], s.trace[len(s.trace)-s.cfg.KeepTrace:]...)
			}
		}
		s.mu.Unlock()
		g.wake <- struct{}{}
	}
}

// Run executes main as goroutine 0 of a fresh bubble under a seeded scheduler.
// Only one Run may be in progress per process.
func Run(t *testing.T, cfg Config, main func()) (res Result) {
	s := newSched(cfg)
	func() {
		defer func() {
			if r := recover(); r != nil {
				msg := fmt.Sprint(r)
				if len(msg) >= 8 && msg[:8] == "deadlock" {
					res.Leaked = true
					return
				}
				panic(r)
			}
		}()
		synctest.Test(t, func(t *testing.T) {
			cur.Store(s)
			defer cur.Store(nil)
			s.start = time.Now()
			s.progress = s.start
			s.spawn(s.newG("main", 0), main)
			s.loop()
			res.SimTime = time.Since(s.start)
		})
	}()
	cur.Store(nil)
	res.Steps = s.steps
	res.Decisions = s.decisions
	res.Switches = s.switches
	res.Stalls = s.stalls
	res.TraceHash = s.hash
	res.SwitchPairs = len(s.pairs)
	res.Goroutines = len(s.gs)
	res.Hang = s.hang
	res.Panic = s.pan
	res.StepLimit = s.stepLimit
	res.Aborted = s.abort
	if n := len(s.trace); n > 0 {
		k := s.cfg.KeepTrace
		if k > n {
			k = n
		}
		res.LastTrace = append([]string(nil), s.trace[n-k:]...)
	}
	return res
}

// Starve marks the calling goroutine as a slow node: while other goroutines
// are runnable it is chosen only rarely (about 1 decision in 64).
func Starve(on bool) {
	if g := Cur(); g != nil {
		g.starved = on
	}
}
