module verif/simrt

go 1.26
