#!/bin/bash
# usage: tools/try_seed.sh <patch.diff> <check ids...>
# Applies the patch to a scratch worktree of /repo (never to /repo itself, so
# that checks running elsewhere keep seeing the unchanged tree), runs the given
# checks against it (quick unless TIER is set) and removes the worktree.
# Evidence of these runs goes to a scratch directory, not to /verif/evidence.
P=$1; shift
cd /verif
WT=/tmp/tryseed-wt-$$
git -C /repo worktree add -q --detach "$WT" HEAD || exit 2
export VERIF_REPO=$WT VERIF_EVIDENCE_DIR=/tmp/tryseed-ev-$$ VERIF_REPLAY_DIR=/tmp/tryseed-ev-$$/replays
trap 'git -C /repo worktree remove --force "$WT" >/dev/null 2>&1; rm -rf "$VERIF_EVIDENCE_DIR"' EXIT
git -C "$WT" apply "$P" || { echo "patch does not apply"; exit 2; }
for c in "$@"; do
  out=$(bin/check $c ${TIER:-quick} 2>&1); rc=$?
  echo "== $c rc=$rc $(echo "$out" | grep -m1 -E '^VIOLATION' )"
  echo "$out" | grep -E "oracle=" | head -2
  echo "$out" | tail -1 | cut -c1-200
done
