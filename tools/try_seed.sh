#!/bin/bash
# usage: tools/try_seed.sh <patch.diff> <check ids...>
# Applies the patch to /repo, runs the given checks (quick unless TIER is set),
# and ALWAYS restores /repo afterwards. Prints one line per check.
P=$1; shift
cd /verif
git -C /repo diff --quiet || { echo "/repo is dirty"; exit 2; }
git -C /repo apply "$P" || { echo "patch does not apply"; exit 2; }
trap 'git -C /repo checkout -- . ; rm -f /verif/replays/tmpseed-*' EXIT
for c in "$@"; do
  out=$(bin/check $c ${TIER:-quick} 2>&1); rc=$?
  echo "== $c rc=$rc $(echo "$out" | grep -m1 -E '^VIOLATION' )"
  echo "$out" | grep -E "oracle=" | head -2
  echo "$out" | tail -1 | cut -c1-200
done
