#!/bin/bash
# usage: tools/confirm_seed.sh <dir with patch.diff, demo_test.go> [demo relative path]
# Confirms in a scratch worktree: demo passes without the patch, fails with it,
# and the repository's own suite passes with the patch. Prints a JSON summary.
set -u
export GOFLAGS=-mod=mod GOPROXY=off GOSUMDB=off
D=$1
export TMPDIR=$(mktemp -d /tmp/confirm-tmp.XXXXXX)  # the suite uses fixed names under TMPDIR
WT=/tmp/confirm-wt-$$
git -C /repo worktree add -q --detach "$WT" HEAD || exit 2
trap 'git -C /repo worktree remove --force "$WT" >/dev/null 2>&1; rm -rf "$TMPDIR"' EXIT
DEMO=${2:-}
if [ -z "$DEMO" ]; then
  DEMO=$(grep -m1 -oE '(leveldb[/a-z_]*/[a-z_0-9]+_test\.go)' "$D/demo_test.go" || true)
  [ -z "$DEMO" ] && DEMO=leveldb/zz_demo_test.go
fi
cp "$D/demo_test.go" "$WT/$DEMO"
PKG=./$(dirname "$DEMO")
TEST=$(grep -m1 -oE 'func (TestDemo[A-Za-z0-9_]*)' "$D/demo_test.go" | awk '{print $2}')
cd "$WT"
go test -vet=off -count=1 -timeout 10m -run "^$TEST\$" $PKG > /tmp/confirm-$$-clean.log 2>&1; CLEAN=$?
git apply "$D/patch.diff" || { echo '{"error":"patch does not apply"}'; exit 1; }
go build ./... > /tmp/confirm-$$-build.log 2>&1; BUILD=$?
go test -vet=off -count=1 -timeout 10m -run "^$TEST\$" $PKG > /tmp/confirm-$$-mut.log 2>&1; MUT=$?
rm -f "$WT/$DEMO"
go test -vet=off -count=1 -timeout 25m ./... > /tmp/confirm-$$-suite.log 2>&1; SUITE=$?
echo "{\"demo\":\"$DEMO\",\"test\":\"$TEST\",\"demo_clean_exit\":$CLEAN,\"build_exit\":$BUILD,\"demo_mutated_exit\":$MUT,\"suite_mutated_exit\":$SUITE}"
grep -E "^(FAIL|---)" /tmp/confirm-$$-suite.log | head -5
rm -f /tmp/confirm-$$-*.log
