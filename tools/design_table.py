#!/usr/bin/env python3
"""Regenerates the seeded-changes table in DESIGN.md §12.4 from seeded/TABLE.md."""
p='/verif/DESIGN.md'; s=open(p).read()
a=s.index('<!-- seeded-table-begin -->'); b=s.index('<!-- seeded-table-end -->')
t=open('/verif/seeded/TABLE.md').read()
s=s[:a]+'<!-- seeded-table-begin -->\n'+t+s[b:]
open(p,'w').write(s)
