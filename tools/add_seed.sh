#!/bin/bash
# usage: tools/add_seed.sh <property> <variant> <dir with patch.diff demo_test.go notes.txt> [extra check ids...]
# Round 6 onwards: confirms a sub-agent's change (confirm_seed.sh), runs the
# property's quick check (and any extra ones) against it in a scratch worktree
# (try_seed.sh) and, when confirmed, stores it as seeded/<property>-<variant>/.
P=$1; V=$2; D=$3; shift 3
cd /verif
CONF=$(tools/confirm_seed.sh "$D" 2>&1)
echo "$CONF"
J=$(echo "$CONF" | grep -m1 '^{')
ok=$(python3 -c "import json,sys; d=json.loads(sys.argv[1]); print(int(d.get('demo_clean_exit')==0 and d.get('build_exit')==0 and d.get('demo_mutated_exit')!=0 and d.get('suite_mutated_exit')==0))" "$J" 2>/dev/null)
if [ "$ok" != "1" ]; then echo "NOT CONFIRMED $P-$V"; exit 1; fi
TRY=$(tools/try_seed.sh "$D/patch.diff" $P "$@" 2>&1)
echo "$TRY"
mkdir -p seeded/$P-$V
cp "$D/patch.diff" "$D/demo_test.go" seeded/$P-$V/
python3 - "$P" "$V" "$D" "$J" "$TRY" <<'PY'
import json,sys,re
P,V,D,J,TRY=sys.argv[1:6]
c=json.loads(J)
notes=open(D+'/notes.txt').read() if __import__('os').path.exists(D+'/notes.txt') else ''
files=sorted(set(re.findall(r'^\+\+\+ b/(\S+)',open(D+'/patch.diff').read(),re.M)))
caught=[m.group(1) for m in re.finditer(r'^== (C\d\d) rc=1 VIOLATION',TRY,re.M)]
oracles=re.findall(r'oracle=([^\s]+)',TRY)
meta={"property":P,"variant":V,"notes_of_the_author":notes,"files":files,
 "origin":"written by an independent sub-agent that was given only the property text and a scratch worktree of /repo",
 "confirmed_in_scratch_worktree":{"what_was_run":"tools/confirm_seed.sh: demo test on /repo HEAD without the patch (must pass), with the patch (must fail); `go build ./... && go test -vet=off -count=1 -timeout 25m ./...` with the patch and without the demo (must pass); private TMPDIR",
  "demo_file":c["demo"],"demo_test":c["test"],"demo_passes_without_patch":c["demo_clean_exit"]==0,"demo_fails_with_patch":c["demo_mutated_exit"]!=0,"suite_passes_with_patch":c["suite_mutated_exit"]==0},
 "checks_run":"tools/try_seed.sh patch.diff "+P+": the patch applied to a scratch worktree, bin/check <id> quick against it, worktree removed",
 "result":("caught by quick "+", quick ".join(caught)+" ("+", ".join(dict.fromkeys(oracles))+")") if caught else "MISSED by the quick checks run: "+TRY[:300]}
json.dump(meta,open('/verif/seeded/%s-%s/meta.json'%(P,V),'w'),indent=1)
print("RESULT",P+'-'+V,meta["result"])
PY
