#!/bin/bash
# confirm every delivered mutation under /tmp/mut/out that has meta.json and no confirm.json yet (4 at a time)
cd /verif
ls -d ${SEEDROOT:-/tmp/mut/out}/*/ | while read d; do
  [ -f "$d/meta.json" ] && [ -f "$d/patch.diff" ] && [ -f "$d/demo_test.go" ] && [ ! -f "$d/confirm.json" ] && echo "$d"
done | xargs -r -P 4 -I{} sh -c 'tools/confirm_seed.sh {} > {}/confirm.json.tmp 2>&1; mv {}/confirm.json.tmp {}/confirm.json'
