#!/usr/bin/env python3
"""Copies the confirmed seeded changes from /tmp/mut/out into /verif/seeded/<id>/
(patch.diff, demo_test.go, meta.json) and records which check caught them."""
import json, os, shutil, glob
RES = {
 "C01-A": ("C01", "caught by quick C01 (scan:mismatch, get:mismatch)", ""),
 "C01-B": ("C01", "caught by quick C01 (scan:mismatch, get:mismatch)", ""),
 "C02-A": ("C02", "caught by quick C02 (txiter:mismatch)", ""),
 "C02-B": ("C02", "caught by quick C02 (iter:mismatch, txiter:mismatch)", ""),
 "C03-A": ("C03", "caught by quick C03 (snapiter/iter:mismatch)", ""),
 "C03-B": ("C03", "caught by quick C03 (snap-unstable) and by C05 (lin:not-linearizable)", "missed at first: C03 programs were single-client; added a concurrent snapshot observer that scans each snapshot twice (stability oracle)"),
 "C04-A": ("C04", "caught by quick C04 (scan:mismatch)", "missed at first: needed a journal record spanning blocks torn 1..6 bytes after a block boundary; crash images now bias cut points to block boundaries and C04 programs sometimes write 40-100 KiB batches below the write buffer"),
 "C04-B": ("C04", "caught by quick C04 (scan:mismatch) in 15 s", ""),
 "C05-A": ("C05", "caught by quick C05 (lin:not-linearizable)", ""),
 "C05-B": ("C05", "caught by quick C05 (lin:not-linearizable)", ""),
 "C06-A": ("C06", "caught by quick C06 (lsm:overlap, lsm:level-seq)", ""),
 "C06-B": ("C06", "caught by quick C06 (lsm:overlap); it re-introduces half of the getOverlaps defect fixed in c32e74f", ""),
 "C07-A": ("C07", "caught by quick C07 (iter:error: pinned iterator reads a removed file)", ""),
 "C07-B": ("C07", "caught by quick C07 (files-residue:extra:table)", "missed at first: needed a failed compaction; C07 programs now include a variant with faults on table files only, followed by heal + settle check"),
 "C08-A": ("C08", "caught by quick C08 (open-failed, scan:mismatch)", ""),
 "C08-B": ("C08", "caught by quick C08 (get:mismatch, txget:mismatch)", ""),
 "C09-A": ("C09", "caught by quick C09 (hang:db_write.go:DB.putRec / DB.Write)", "missed at first: needs concurrent writers AND a journal fault; C09 now runs 40% of its cases as concurrent clients under the fault plan (liveness oracles only)"),
 "C09-B": ("C09", "caught by quick C09 (hang:wg.waiting<db.go:DB.Close)", ""),
 "C10-A": ("C10", "caught by quick C10 (wgroup:ack-before-log)", "missed at first (also in a 240 s run): the linearizability oracle needs a reader in a tiny window; added the oracle 'at acknowledgement every value of the write is in some journal', slow-node scheduling and a many-writers/small-buffer storm mode"),
 "C10-B": ("C10", "caught by quick C10 (panic:leveldb.(*DB).OpenTransaction)", ""),
 "C11-A": ("C11", "caught by quick C11 (scan:mismatch, get:mismatch) in 18 s", ""),
 "C11-B": ("C11", "caught by quick C11 (txiter:mismatch)", "missed at first: transaction iterators were released within one operation; transaction bodies now keep an iterator open while the transaction grows past the write buffer"),
 "C12-A": ("C12", "caught by quick C12 (journal:invented)", ""),
 "C12-B": ("C12", "caught by quick C12 (journal:strict-silent)", "missed at first: strict mode was only required not to invent records; now, for byte damage, a stream that an independent decoder no longer decodes completely must make the strict reader return an error, and every byte of the first chunk headers is damaged explicitly"),
 "C13-A": ("C13", "caught by quick C13 (table:offsetof)", ""),
 "C13-B": ("C13", "caught by quick C13 (table:panic, table:hidden)", "missed at first: needs Strict without StrictBlockChecksum, where data blocks are unverified by design; added a variant that damages only the always-verified index/meta-index/filter blocks under opt.NoStrict, and a watchdog around damaged-table reads"),
 "C14-A": ("C14", "caught by quick C14 (memdb:len-size)", ""),
 "C14-B": ("C14", "caught by quick C14 (memdb:iter-invented)", ""),
 "C16-A": ("C16", "caught by quick C16 (get:has-mismatch, get:mismatch; control run without filters passes)", ""),
 "C16-B": ("C16", "caught by quick C16 (get:has-mismatch, get:mismatch)", ""),
 "C17-A": ("C17", "caught by quick C17 (cache:delfunc-never)", "missed at first: callbacks were checked for 'not twice / not early' only; now every deletion callback must have run exactly once when no handle is outstanding"),
 "C17-B": ("C17", "caught by quick C17 (cache:not-finalized, cache:leak)", ""),
 "C18-A": ("C18", "caught by quick C18 (scan:mismatch in the read-only open scenario)", ""),
 "C18-B": ("C18", "caught by quick C18 (readonly-mutate:write:table); it removes one of the two guards added by fix 1fed816", ""),
 "C19-A": ("C19", "caught by quick C19 (lsm:level-seq, get:has-mismatch)", ""),
 "C19-B": ("C19", "caught by quick C19 (scan:mismatch after Recover + reopen)", ""),
 "C20-A": ("C20", "caught by quick C20 (scan:mismatch, iter:mismatch; control run without scribbling passes); it reverts fix c2308d5", ""),
 "C20-B": ("C20", "caught by quick C20 (iter:mismatch, txget:mismatch)", ""),
 # ---- round 2 (variants C, D; sub-agents were also told which mechanisms round 1 had used) ----
 "C01-C": ("C01", "caught by quick C01 (get:has-mismatch)", ""),
 "C01-D": ("C01", "caught by quick C01 (get:mismatch, scan:mismatch)", ""),
 "C02-C": ("C02", "caught by quick C02 (iter:mismatch, snapiter:mismatch)", ""),
 "C02-D": ("C02", "caught by quick C02 (txiter:mismatch, txiter:error)", ""),
 "C03-C": ("C03", "caught by quick C03 (iter:mismatch, snapget:mismatch)", ""),
 "C03-D": ("C03", "caught by quick C03 (iter:mismatch, snapiter:mismatch)", ""),
 "C04-C": ("C04", "caught by quick C04 (scan:sync-write-lost) and quick C10 (wgroup:sync-ack-not-durable)", "missed at first: needs a Sync write merged into a non-sync leader's group, i.e. concurrent writers, then a crash; added the 'conccrash' scenario (concurrent writers on disjoint keys, crash, reopen: every Sync-acknowledged write must survive) and the C10 oracle 'at a Sync acknowledgement the journal bytes of the write are synced'"),
 "C04-D": ("C04", "caught by quick C04 (open-failed)", ""),
 "C05-C": ("C05", "caught by quick C05 (lin:not-linearizable)", ""),
 "C05-D": ("C05", "caught by quick C05 (lin:invented-value)", ""),
 "C06-D": ("C06", "caught by quick C06 (lsm:overlap)", ""),
 "C07-C": ("C07", "caught by quick C07 (read-removed, iter:mismatch)", "missed at first: needs an iterator of a transaction that outlives Discard while the next table reuses the file number; transaction iterators may now outlive Commit/Discard and are stepped and released later like DB iterators"),
 "C07-D": ("C07", "caught by quick C07 (files-residue:extra:table)", ""),
 "C08-C": ("C08", "caught by quick C08 (open-failed)", "missed at first (also in a 200 s run): needs Close racing a transaction commit that is being retried after a manifest fault; added that race to the concurrent fault scenario"),
 "C08-D": ("C08", "caught by quick C08 (scan:acked-write-lost)", "missed at first: needs concurrent writers under journal faults; added the 'concfault' scenario (concurrent writers on disjoint keys, error faults, reopen: acknowledged writes survive, failed ones are all-or-nothing)"),
 "C09-C": ("C09", "caught by quick C09 (hang:db_write.go:DB.putRec, hang:DB.OpenTransaction)", ""),
 "C09-D": ("C09", "caught by quick C09 and quick C18 (hang:db_write.go:DB.putRec)", "missed at first: needs Put/Delete with NoWriteMerge on a DB in the read-only (persistent error) state; added the 'setro' operation (SetReadOnly in the middle of a history, then every write entry point with every combination of Sync/NoWriteMerge must answer ErrReadOnly) to all DB-level programs and to the C18 scenarios"),
 "C10-C": ("C10", "caught by quick C10 (wgroup:unattributable, wgroup:duplicated)", ""),
 "C10-D": ("C10", "caught by quick C10 (wgroup:sync-ack-not-durable)", "missed at first: see C04-C (sync-ack oracle)"),
 "C11-C": ("C11", "caught by quick C11 and quick C08 (open-failed)", "missed at first by C11 (C08 caught it): C11 programs were single-client; 15% of C11 cases now run the Close-versus-retried-commit race under manifest faults"),
 "C11-D": ("C11", "caught by quick C11 (scan:mismatch, get:mismatch); it partially reverts fix 9e57e47", ""),
 "C12-C": ("C12", "caught by quick C12 (journal:strict-silent)", ""),
 "C12-D": ("C12", "caught by quick C12 (journal:yielded-beyond-cut)", "missed at first: needs a truncation inside a chunk whose lost bytes equal the reader's stale buffer; journals are now also written with all-zero and constant-byte record contents, and for truncated streams a yielded record must lie completely within the stream"),
 "C13-C": ("C13", "caught by quick C13 (table:get)", ""),
 "C13-D": ("C13", "caught by quick C13 (table:format: the independent decoder no longer accepts the writer's block checksums)", ""),
 "C16-C": ("C16", "caught by quick C16 (get:has-mismatch, get:mismatch)", ""),
 "C16-D": ("C16", "caught by quick C16 (get:has-mismatch, get:mismatch)", "missed at first: needs a policy with a different name; the harness now has a second filter policy (exact hash set, other name, other encoding) used as Filter and in AltFilters across reopens"),
 "C14-C": ("C14", "caught by quick C14 (memdb:contains-mismatch, memdb:get-mismatch)", ""),
 "C14-D": ("C14", "caught by quick C14 (memdb:value-unstable)", "missed at first: in-place overwrite of equal-length values is only visible to a reader that still holds an earlier slice; the memdb scenario now keeps the slices handed out by Get/Find/iterators and requires their bytes to stay unchanged until Reset"),
 "C17-C": ("C17", "caught by quick C17 (cache:not-finalized)", "missed at first: needs Close/EvictAll while the hash table is being resized (>= 512 nodes); added a 'fill' operation that grows the table right before Close/EvictAll/SetCapacity(0), and the end-of-run requirement that after Close every value is finalised exactly once"),
 "C17-D": ("C17", "caught by quick C17 (panic:cache.(*lruNode).remove)", ""),
 "C18-C": ("C18", "caught by quick C18 and quick C09 (hang:db_write.go:DB.putRec)", "missed at first by C18 (C09 caught it once 'setro' existed): needs SetReadOnly while a failed flush is being retried; the C18 SetReadOnly scenario now runs 40% of its cases under table-file faults"),
 "C18-D": ("C18", "caught by quick C18 (readonly:empty-open-succeeded)", "missed at first: added the open guards to the read-only scenario (read-only / ErrorIfMissing Open of an empty storage must fail and create nothing; ErrorIfExist on an existing DB must fail and change nothing)"),
 "C19-C": ("C19", "caught by quick C19 (scan:mismatch, recover:lost-undamaged)", ""),
 "C19-D": ("C19", "caught by quick C19 (recover:lost-undamaged)", "missed at first: needs Options.Strict set explicitly without StrictReader; C19 cases now use explicit strictness levels (block checksums on, StrictRecovery off) 40% of the time"),
 "C20-C": ("C20", "caught by quick C20 (get:mismatch, iter:mismatch)", ""),
 "C20-D": ("C20", "caught by quick C20 and quick C10 (arg-modified:batch)", "missed at first: needs a Write that leads a merge group, i.e. concurrent writers; concurrent clients now compare the batch before and after Write, and 15% of C20 cases are concurrent"),

 # ---- round 3 (variants E, F; sub-agents were told all mechanisms of rounds 1-2 and asked for other areas of the code) ----
 "C01-E": ("C01", "caught by quick C01 (scan:mismatch, get:has-mismatch)", ""),
 "C01-F": ("C01", "caught by quick C01 (get:mismatch, write-err: keys are not in increasing order)", ""),
 "C02-E": ("C02", "caught by quick C02 (iter:mismatch)", ""),
 "C02-F": ("C02", "caught by quick C02 (txiter:mismatch, iter:mismatch)", ""),
 "C03-E": ("C03", "caught by quick C03 (iter:error, snapiter:error: a pinned version's table was removed)", ""),
 "C03-F": ("C03", "caught by quick C03 (snapget:has-mismatch)", ""),
 "C04-E": ("C04", "caught by quick C04 (scan:mismatch, txiter:mismatch)", ""),
 "C04-F": ("C04", "caught by quick C04 (scan:mismatch, txiter:mismatch)", ""),
 "C05-E": ("C05", "caught by quick C05 (lin:not-linearizable)", ""),
 "C05-F": ("C05", "caught by quick C05 (lin:not-linearizable)", ""),
 "C06-E": ("C06", "caught by quick C06 (lsm:missing-file, lsm:overlap)", ""),
 "C06-F": ("C06", "caught by quick C06 (lsm:level-seq) and quick C19 (lsm:level-seq, recover:lost-undamaged)", "missed at first by C06 (C19 caught it): needs a repaired DB, where level 0 holds every table in file-number order; 12% of C06 cases now lose the manifest, run Recover and continue with a write-heavy program (small level-0 triggers)"),
 "C07-E": ("C07", "caught by quick C07 (files-residue:extra:table)", ""),
 "C07-F": ("C07", "caught by quick C07 (files-residue:extra:table, iter:mismatch)", ""),
 "C08-E": ("C08", "caught by quick C08 (get:mismatch, scan:mismatch)", "missed at first by the quick tier (the thorough tier found it in 200 s): needs deletion markers compacted downward in a deep tree while a table operation fails and the compaction is retried; added the deep-tombstone variant (15% of C08 fault cases)"),
 "C08-F": ("C08", "caught by quick C08 (scan:mismatch, iter:mismatch)", ""),
 "C09-E": ("C09", "caught by quick C09 (hang:db_compaction.go:DB.compTriggerWait / compTriggerRange)", "missed at first: needs a compaction that reads a damaged block (persistent error state); 10% of sequential C09 cases now apply bit rot at rest and then keep writing and compacting"),
 "C09-F": ("C09", "caught by quick C09 and quick C11 (hang:wg.waiting<db.go:DB.Close)", "missed at first by C09 (quick C11 caught it): 12% of C09 cases now run the Close-versus-retried-commit race under manifest faults that C08 and C11 already had"),
 "C10-E": ("C10", "caught by quick C10 (lin:not-linearizable, panic:leveldb.(*DB).rotateMem)", ""),
 "C10-F": ("C10", "caught by quick C10 (hang:DB.OpenTransaction, hang:DB.CompactRange/Write/putRec), quick C09 and quick C18; it is the same change as C18-C, found independently", "missed at first by C10: 15% of concurrent C09/C10 cases now have one client call SetReadOnly among the writers, half of them while a flush is failing and being retried"),
 "C11-E": ("C11", "caught by quick C11 (txiter:mismatch, tx-open-err); it is the same change as C01-F, found independently", ""),
 "C11-F": ("C11", "caught by quick C11 (txiter:mismatch, files-residue:extra:table)", ""),
 "C12-E": ("C12", "caught by quick C12 (journal:invented)", "missed at first: needs a Reader reused through Reset; 40% of the journal cases now read the intact stream first and Reset the same Reader onto the stream under test, as recovery does for the second and later journals"),
 "C12-F": ("C12", "caught by quick C12 (journal:reset-lost)", "missed at first: needs Writer.Reset with buffered records; 30% of the journal cases now Reset the Writer onto fresh streams at seeded points and require every earlier stream to read back exactly"),
 "C13-E": ("C13", "caught by quick C13 (table:find-filtered); it is the same change as C16-C, found independently", "missed at first by C13 (quick C16 catches it): the table component looked keys up without the filter only; now Find/FindKey through the filter must return every stored key"),
 "C13-F": ("C13", "caught by quick C13 (table:panic)", ""),
 "C14-E": ("C14", "caught by quick C14 (memdb:iter-mismatch)", ""),
 "C14-F": ("C14", "caught by quick C14 (memdb:len-size)", ""),
 "C16-E": ("C16", "caught by quick C16 and quick C19 (recover:lost-undamaged); it reverts the filter half of fix f3820b8", "missed at first by C16 (quick C19 caught it): 10% of C16 cases now lose the manifest, damage table blocks and run Recover under a filter policy"),
 "C16-F": ("C16", "caught by quick C16 and quick C03 (snapget:mismatch, snapget:has-mismatch)", "missed at first by C16 (quick C03 caught it): C16 programs had no snapshots, so no read ever selected an older version of a key; they have now"),
 "C17-E": ("C17", "caught by quick C17 (cache:dead-value-held, cache:finalized-with-handles); it removes the re-check added by fix 722850a", ""),
 "C17-F": ("C17", "caught by quick C17 (cache:leak, cache:over-capacity)", ""),
 "C20-E": ("C20", "caught by quick C20 (wgroup:ack-before-log, arg-modified:batch-retained), quick C10 and quick C05", "missed at first by C20 (quick C10 and C05 caught it): concurrent C20 cases now reuse their batch the moment Write returns (a poison record that must never reach the DB), check that an acknowledged batch is in the journal already, issue most writes through Write and mostly run in storm mode with slow clients (50% of C20 cases are concurrent); about one concurrent case in 2400 exposes it, a quick run has some 9000"),
 "C20-F": ("C20", "caught by quick C02 and quick C11 (txiter:mismatch, txiter:error); it is the same change as C02-D. C20's own check sees the mismatch too but does not report it: its twin run without scribbling fails in the same way, and the pair the iterator exposes stays intact, so the statement of C20 is not what breaks", ""),
 "C18-E": ("C18", "caught by quick C18 (closed:race-get-notfound)", "missed at first: a Get racing Close was allowed to report not-found; now a key that is certainly present when the race starts (the racing clients only put) must be found or the closed error returned, for Get, Has, Snapshot.Get and Snapshot.Has"),
 "C18-F": ("C18", "caught by quick C18 (readonly-mutate:fs:removed, readonly-mutate:fs:created)", "missed at first: the change is in file_storage.go, which the simulated disk replaces; added the ro-fs scenario (the settled image laid out in a real scratch directory with crash leftovers, read-only OpenFile + Open, directory compared entry by entry)"),
 "C19-E": ("C19", "caught by quick C19 (scan:mismatch, lsm:level-seq); it is the same change as C06-E, found independently", ""),
 "C19-F": ("C19", "caught by quick C19 (get:has-mismatch, panic:leveldb.internalKey.assert) and quick C16", "missed at first: needs one Options value used for two sessions; the harness now keeps using one Options value while the settings are unchanged (as applications do), and 25% of C19 cases change the filter policy (old one in AltFilters) right before the shutdown that precedes Recover"),

 # ---- round 4 (variants G, H; asked for coincidences of two conditions, rarely used calls, long histories) ----
 "C01-G": ("C01", "caught by quick C08 (get:mismatch, scan:mismatch); it is the same change as C08-E. Not reported by C01's own check: it needs a failed and retried compaction, and C01's programs are fault-free like the property's quantifier", ""),
 "C01-H": ("C01", "caught by quick C01 (get:has-mismatch, get:mismatch)", "missed at first: needs tables written under one filter policy and read under another that lists the first in AltFilters; every DB-level program now passes the previous policy in AltFilters when a reopen changes it (60%), and the hash-set policy is part of the general option vector"),
 "C02-G": ("C02", "caught by quick C02 (iter:mismatch); same change as C05-E and C04-G", ""),
 "C02-H": ("C02", "caught by quick C08 (get:mismatch, scan:mismatch); it is the same change as C08-E / C01-G. Not reported by C02's own check, whose programs are fault-free", ""),
 "C03-G": ("C03", "caught by quick C03 (snapget:has-mismatch, snapget:mismatch); same change as C16-F", ""),
 "C03-H": ("C03", "caught by quick C03 (txiter:mismatch); same change as C02-D", "missed at first: C03 programs had no transactions; they have now (with iterators that outlive the transaction), which also exposed a genuine defect on the unchanged tree (fix a8158c3)"),
 "C04-G": ("C04", "caught by quick C04 (scan:mismatch, get:has-mismatch); same change as C05-E", ""),
 "C04-H": ("C04", "caught by quick C04 (open-failed)", "missed at first: needs a manifest record that crosses a 32 KiB block boundary and is torn by the crash; 6% of C04 cases now use keys of several KiB with crash points biased to manifest writes, which also exposed a genuine defect on the unchanged tree (fix 0fb4c47)"),
 "C05-G": ("C05", "caught by quick C05 (lin:not-linearizable, panic:leveldb.(*DB).rotateMem)", ""),
 "C05-H": ("C05", "caught by quick C05 (txiter:own-writes); same change as C02-D", "missed at first: concurrent C05 programs kept transaction bodies to writes; 40% of their transactions now create an iterator half-way through a body that outgrows the write buffer and require it to keep showing the transaction's earlier writes"),
 "C06-G": ("C06", "caught by quick C06 (lsm:level-seq, lsm:overlap); same change as C07-C", ""),
 "C06-H": ("C06", "caught by quick C06 (lsm:level-seq, lsm:manifest-undecodable); same change as C11-F", ""),
 "C07-G": ("C07", "caught by quick C07 (files-residue:extra:table)", "missed at first: needs a failed version commit followed by successful ones; 40% of the table-fault cases of C07 now also fail manifest writes/syncs, and after the faults have stopped they write, compact and only then run the settle check"),
 "C07-H": ("C07", "caught by quick C07 (files-residue:extra:table)", "missed at first: needs SizeOf to fail while opening a table; C07 programs now call Stats/GetProperty/SizeOf (with bounds that lie inside tables), and the table-fault variant also fails opens and reads"),
 "C08-G": ("C08", "caught by quick C08 (get:mismatch, txget:has-mismatch)", "missed at first: needs a discarded transaction whose table was read (blocks cached) and whose file cannot be removed; added the discard-under-remove-faults variant (10% of C08 fault cases)"),
 "C08-H": ("C08", "caught by quick C08 (iter:mismatch, txiter:mismatch)", ""),
 "C09-G": ("C09", "caught by quick C09 (hang:db_write.go:DB.putRec, hang:DB.OpenTransaction); same change as C18-C and C10-F", ""),
 "C09-H": ("C09", "caught by quick C09 (hang:mutex.wait<db_transaction.go:Transaction.Commit, hang:wg.waiting<db.go:DB.Close)", ""),
 "C10-G": ("C10", "caught by quick C10 (hang:DB.OpenTransaction, hang:DB.Write/putRec); same change as C09-C", ""),
 "C10-H": ("C10", "caught by quick C10 (hang:db_write.go:DB.putRec, wgroup:ack-before-log); same change as C09-A", "missed at first: needs a journal write failure among concurrent writers; 12% of C10 cases now inject journal write/sync failures, which also exposed a genuine defect on the unchanged tree (fix 8e73cda)"),

 "C11-G": ("C11", "caught by quick C11 (txget:has-mismatch)", ""),
 "C11-H": ("C11", "caught by quick C11 and quick C05 (snap-unstable)", "missed at first: needs a snapshot taken while Commit is writing its manifest record and read again after Commit has returned; concurrent clients now keep each snapshot open over their next operation and read it a second time, and 12% of C11 cases are plain concurrent programs (transactions, snapshot takers, readers, writers)"),
 "C12-G": ("C12", "caught by quick C12 (journal:strict-silent, journal:invented)", ""),
 "C12-H": ("C12", "caught by quick C12 (journal:strict-silent, journal:invented)", ""),
 "C13-G": ("C13", "caught by quick C13 (table:iter)", ""),
 "C13-H": ("C13", "caught by quick C13 (table:find-filtered)", ""),
 "C14-G": ("C14", "caught by quick C14 (hang: recursive read lock in dbIter.Prev/Last against a waiting Put)", ""),
 "C14-H": ("C14", "caught by quick C14 (memdb:get-mismatch, panic:memdb.(*DB).Get)", ""),
 "C16-G": ("C16", "caught by quick C16 (get:mismatch, get:has-mismatch) and quick C13 (table:hidden)", "missed at first (also by C13): needs block checksums switched off and a damaged filter block; 8% of C16 cases now run without StrictBlockChecksum and alter filter blocks at rest, and the table component reads damaged tables through the filter as well"),
 "C16-H": ("C16", "caught by quick C16 (panic:leveldb.internalKey.assert, recover:lost-undamaged); same change as C19-F", ""),
 "C17-G": ("C17", "caught by quick C17 (cache:delfunc-never, cache:not-finalized)", ""),
 "C17-H": ("C17", "caught by quick C17 (cache:delfunc-never)", "missed at first, and not for lack of a scenario: `n.delFuncs = append(n.delFuncs, f)` is one statement, and with one scheduling point per statement two goroutines could never interleave inside it. The instrumenter now splits field read-modify-writes (x.f = append(x.f, ...), x.f++, x.f op= e) into read, scheduling point, write"),
 "C18-G": ("C18", "caught by quick C18 (hang:db.go:DB.Close, hang:DB.putRec); same change as C09-C and C10-G", ""),
 "C18-H": ("C18", "caught by quick C18 (hang:db_write.go:DB.CompactRange)", ""),
 "C19-G": ("C19", "caught by quick C19 (lsm:bounds, recover:lost-undamaged)", ""),
 "C19-H": ("C19", "caught by quick C19 (lsm:bounds, recover:lost-undamaged)", ""),
 "C20-G": ("C20", "caught by quick C20 (get:has-mismatch, get:mismatch)", "missed at first: needs an empty value and a caller that grows the returned slice in place; single-client programs now store empty values (4%), and scribbling covers the spare capacity behind a returned value. The first run with both crashed a worker (a simrt bug: the panic value was formatted, through instrumented code, while the scheduler lock was held), reported as TROUBLE, not as a verdict, and fixed"),
 "C20-H": ("C20", "caught by quick C20 (panic:table.(*block).seek, panic:leveldb.(*DB).tCompaction)", "missed at first: see C20-G"),

 # ---- round 5 (variants I, J for ten properties) ----
 "C04-I": ("C04", "caught by quick C04 (scan:mismatch); it weakens fix 0fb4c47", ""),
 "C04-J": ("C04", "caught by quick C04 (open-failed); it breaks fix e6e9f07", "missed at first: needs failed commits and then a crash; 8% of C04 cases now let manifest syncs fail for a while (failed, discarded transaction commits) before the crash"),
 "C05-J": ("C05", "caught by quick C05 (lin:not-linearizable) and quick C01 (get:has-mismatch)", "missed at first by C05 (quick C01 caught it): the concurrent clients never called Has; a quarter of their point reads now do, with a presence-only observation in the linearizability model"),
 "C07-I": ("C07", "caught by quick C07 (files-residue:extra:table); it breaks fix e6e9f07", "missed at first by the quick tier (the thorough tier found it in 150 s): needs a transaction commit that fails all three attempts while a level-0 compaction is in flight; the failed-commit variant of C07 now produces exactly that half of the time and delays the Discard"),
 "C07-J": ("C07", "caught by quick C07 (files-residue:fs:extra:table)", "missed at first: the change is in file_storage.go (removal of tables under the legacy .sst name); added the fsrw operation (real scratch directory, live tables partly renamed to .sst, read-write open, rewrite, compact, settle, directory versus manifest, reopen)"),
 "C08-I": ("C08", "caught by quick C08 (open-failed)", ""),
 "C08-J": ("C08", "caught by quick C08 (scan:mismatch)", ""),
 "C09-I": ("C09", "caught by quick C17 (hang: Cache.Close versus Node.unRefExternal under EvictNS/EvictAll); it reverts a third of fix a6e8412. Not reported by quick C09: at DB level it needs BlockCacheEvictRemoved, a table removal and Close within one window, which 40 s did not produce", ""),
 "C09-J": ("C09", "caught by quick C09 (hang:db_write.go:DB.putRec, DB.Write); it reverts fix 5fe7803 (same change as C10-I and C11-I)", ""),
 "C10-I": ("C10", "caught by quick C10 (hang:DB.OpenTransaction, hang:DB.putRec); same change as C09-J", ""),
 "C10-J": ("C10", "caught by quick C10 (hang:db.go:DB.Close)", "missed at first: needs Close while a transaction is open; 30% of the closing clients now open a transaction, write to it and call Close without finishing it"),
 "C11-I": ("C11", "caught by quick C11 (hang:db_write.go:DB.putRec, hang:DB.OpenTransaction); same change as C09-J", "missed at first by the quick tier (the thorough tier's enumeration found it): 10% of single-client C11 cases now run with manifest failures and a small write buffer, so that transactions and transaction-routed large batches fail to commit"),
 "C11-J": ("C11", "caught by quick C11 (hang:db.go:DB.Close)", ""),
 "C18-I": ("C18", "caught by quick C18 (panic:leveldb.(*DB).mpoolPut)", ""),
 "C18-J": ("C18", "caught by quick C18 (readonly:empty-open-created)", "missed at first: the change is in file_storage.go; the open guards now include a read-only OpenFile of a missing path on the real file system, which must fail and create nothing"),
 "C19-I": ("C19", "caught by quick C19 (recover:lost-undamaged, get:mismatch)", ""),

}
os.makedirs("/verif/seeded", exist_ok=True)
rows = []
for name, (prop, caught, note) in sorted(RES.items()):
    src = "/tmp/mut/out/" + name
    if not os.path.exists(src + "/patch.diff"):
        src = "/tmp/mut/out2/" + name
    if not os.path.exists(src + "/patch.diff"):
        src = "/tmp/mut/out3/" + name
    if not os.path.exists(src + "/patch.diff"):
        src = "/tmp/mut/out4/" + name
    if not os.path.exists(src + "/patch.diff"):
        src = "/tmp/mut/out5/" + name
    if os.path.exists("/verif/seeded/" + name + "/patch.diff") and not os.path.exists(src + "/patch.diff"):
        rows_keep = json.load(open("/verif/seeded/" + name + "/meta.json"))
        rows.append((name, prop, rows_keep.get("result", caught), rows_keep.get("strengthening", note)))
        continue
    if not os.path.exists(src + "/patch.diff"):
        print("missing", name); continue
    conf = {}
    try:
        conf = json.loads(open(src + "/confirm.json").readline())
    except Exception as e:
        conf = {"error": "no confirmation: %s" % e}
    ok = conf.get("demo_clean_exit") == 0 and conf.get("demo_mutated_exit") == 1 and conf.get("suite_mutated_exit") == 0 and conf.get("build_exit") == 0
    if not ok:
        print("NOT CONFIRMED", name, conf); continue
    dst = "/verif/seeded/" + name
    os.makedirs(dst, exist_ok=True)
    shutil.copy(src + "/patch.diff", dst + "/patch.diff")
    shutil.copy(src + "/demo_test.go", dst + "/demo_test.go")
    meta = json.load(open(src + "/meta.json"))
    out = {
        "property": prop, "variant": name[-1],
        "breaks": meta.get("summary", ""),
        "needs_to_manifest": meta.get("needs", ""),
        "files": meta.get("files", []),
        "origin": "written by an independent sub-agent that was given only the property text and a scratch worktree of /repo",
        "confirmed_in_scratch_worktree": {
            "what_was_run": "tools/confirm_seed.sh: demo test on /repo HEAD without the patch (must pass), with the patch (must fail); `go build ./... && go test -vet=off -count=1 -timeout 25m ./...` with the patch and without the demo (must pass); private TMPDIR",
            "demo_file": conf.get("demo"), "demo_test": conf.get("test"),
            "demo_passes_without_patch": True, "demo_fails_with_patch": True, "suite_passes_with_patch": True,
        },
        "checks_run": "tools/try_seed.sh patch.diff %s: the patch applied to a tree, bin/check <id> quick against it, tree restored" % prop,
        "result": caught,
    }
    if note:
        out["strengthening"] = note
    json.dump(out, open(dst + "/meta.json", "w"), indent=1)
    rows.append((name, prop, caught, note))
print(len(rows), "kept")
md = ["| seeded change | result | what had to be strengthened |", "|---|---|---|"]
for name, prop, caught, note in rows:
    md.append("| %s | %s | %s |" % (name, caught, note or "-"))
open("/verif/seeded/TABLE.md", "w").write("\n".join(md) + "\n")
