#!/usr/bin/env python3
"""Copies the confirmed seeded changes from /tmp/mut/out into /verif/seeded/<id>/
(patch.diff, demo_test.go, meta.json) and records which check caught them."""
import json, os, shutil, glob
RES = {
 "C01-A": ("C01", "caught by quick C01 (scan:mismatch, get:mismatch)", ""),
 "C01-B": ("C01", "caught by quick C01 (scan:mismatch, get:mismatch)", ""),
 "C02-A": ("C02", "caught by quick C02 (txiter:mismatch)", ""),
 "C02-B": ("C02", "caught by quick C02 (iter:mismatch, txiter:mismatch)", ""),
 "C03-A": ("C03", "caught by quick C03 (snapiter/iter:mismatch)", ""),
 "C03-B": ("C03", "caught by quick C03 (snap-unstable) and by C05 (lin:not-linearizable)", "missed at first: C03 programs were single-client; added a concurrent snapshot observer that scans each snapshot twice (stability oracle)"),
 "C04-A": ("C04", "caught by quick C04 (scan:mismatch)", "missed at first: needed a journal record spanning blocks torn 1..6 bytes after a block boundary; crash images now bias cut points to block boundaries and C04 programs sometimes write 40-100 KiB batches below the write buffer"),
 "C04-B": ("C04", "caught by quick C04 (scan:mismatch) in 15 s", ""),
 "C05-A": ("C05", "caught by quick C05 (lin:not-linearizable)", ""),
 "C05-B": ("C05", "caught by quick C05 (lin:not-linearizable)", ""),
 "C06-A": ("C06", "caught by quick C06 (lsm:overlap, lsm:level-seq)", ""),
 "C06-B": ("C06", "caught by quick C06 (lsm:overlap); it re-introduces half of the getOverlaps defect fixed in c32e74f", ""),
 "C07-A": ("C07", "caught by quick C07 (iter:error: pinned iterator reads a removed file)", ""),
 "C07-B": ("C07", "caught by quick C07 (files-residue:extra:table)", "missed at first: needed a failed compaction; C07 programs now include a variant with faults on table files only, followed by heal + settle check"),
 "C08-A": ("C08", "caught by quick C08 (open-failed, scan:mismatch)", ""),
 "C08-B": ("C08", "caught by quick C08 (get:mismatch, txget:mismatch)", ""),
 "C09-A": ("C09", "caught by quick C09 (hang:db_write.go:DB.putRec / DB.Write)", "missed at first: needs concurrent writers AND a journal fault; C09 now runs 40% of its cases as concurrent clients under the fault plan (liveness oracles only)"),
 "C09-B": ("C09", "caught by quick C09 (hang:wg.waiting<db.go:DB.Close)", ""),
 "C10-A": ("C10", "caught by quick C10 (wgroup:ack-before-log)", "missed at first (also in a 240 s run): the linearizability oracle needs a reader in a tiny window; added the oracle 'at acknowledgement every value of the write is in some journal', slow-node scheduling and a many-writers/small-buffer storm mode"),
 "C10-B": ("C10", "caught by quick C10 (panic:leveldb.(*DB).OpenTransaction)", ""),
 "C11-A": ("C11", "caught by quick C11 (scan:mismatch, get:mismatch) in 18 s", ""),
 "C11-B": ("C11", "caught by quick C11 (txiter:mismatch)", "missed at first: transaction iterators were released within one operation; transaction bodies now keep an iterator open while the transaction grows past the write buffer"),
 "C12-A": ("C12", "caught by quick C12 (journal:invented)", ""),
 "C12-B": ("C12", "caught by quick C12 (journal:strict-silent)", "missed at first: strict mode was only required not to invent records; now, for byte damage, a stream that an independent decoder no longer decodes completely must make the strict reader return an error, and every byte of the first chunk headers is damaged explicitly"),
 "C13-A": ("C13", "caught by quick C13 (table:offsetof)", ""),
 "C13-B": ("C13", "caught by quick C13 (table:panic, table:hidden)", "missed at first: needs Strict without StrictBlockChecksum, where data blocks are unverified by design; added a variant that damages only the always-verified index/meta-index/filter blocks under opt.NoStrict, and a watchdog around damaged-table reads"),
 "C14-A": ("C14", "caught by quick C14 (memdb:len-size)", ""),
 "C14-B": ("C14", "caught by quick C14 (memdb:iter-invented)", ""),
 "C16-A": ("C16", "caught by quick C16 (get:has-mismatch, get:mismatch; control run without filters passes)", ""),
 "C16-B": ("C16", "caught by quick C16 (get:has-mismatch, get:mismatch)", ""),
 "C17-A": ("C17", "caught by quick C17 (cache:delfunc-never)", "missed at first: callbacks were checked for 'not twice / not early' only; now every deletion callback must have run exactly once when no handle is outstanding"),
 "C17-B": ("C17", "caught by quick C17 (cache:not-finalized, cache:leak)", ""),
 "C18-A": ("C18", "caught by quick C18 (scan:mismatch in the read-only open scenario)", ""),
 "C18-B": ("C18", "caught by quick C18 (readonly-mutate:write:table); it removes one of the two guards added by fix 1fed816", ""),
 "C19-A": ("C19", "caught by quick C19 (lsm:level-seq, get:has-mismatch)", ""),
 "C19-B": ("C19", "caught by quick C19 (scan:mismatch after Recover + reopen)", ""),
 "C20-A": ("C20", "caught by quick C20 (scan:mismatch, iter:mismatch; control run without scribbling passes); it reverts fix c2308d5", ""),
 "C20-B": ("C20", "caught by quick C20 (iter:mismatch, txget:mismatch)", ""),
}
os.makedirs("/verif/seeded", exist_ok=True)
rows = []
for name, (prop, caught, note) in sorted(RES.items()):
    src = "/tmp/mut/out/" + name
    if not os.path.exists(src + "/patch.diff"):
        print("missing", name); continue
    conf = {}
    try:
        conf = json.loads(open(src + "/confirm.json").readline())
    except Exception as e:
        conf = {"error": "no confirmation: %s" % e}
    ok = conf.get("demo_clean_exit") == 0 and conf.get("demo_mutated_exit") == 1 and conf.get("suite_mutated_exit") == 0 and conf.get("build_exit") == 0
    if not ok:
        print("NOT CONFIRMED", name, conf); continue
    dst = "/verif/seeded/" + name
    os.makedirs(dst, exist_ok=True)
    shutil.copy(src + "/patch.diff", dst + "/patch.diff")
    shutil.copy(src + "/demo_test.go", dst + "/demo_test.go")
    meta = json.load(open(src + "/meta.json"))
    out = {
        "property": prop, "variant": name[-1],
        "breaks": meta.get("summary", ""),
        "needs_to_manifest": meta.get("needs", ""),
        "files": meta.get("files", []),
        "origin": "written by an independent sub-agent that was given only the property text and a scratch worktree of /repo",
        "confirmed_in_scratch_worktree": {
            "what_was_run": "tools/confirm_seed.sh: demo test on /repo HEAD without the patch (must pass), with the patch (must fail); `go build ./... && go test -vet=off -count=1 -timeout 25m ./...` with the patch and without the demo (must pass); private TMPDIR",
            "demo_file": conf.get("demo"), "demo_test": conf.get("test"),
            "demo_passes_without_patch": True, "demo_fails_with_patch": True, "suite_passes_with_patch": True,
        },
        "checks_run": "git -C /repo apply patch.diff; bin/check %s quick; git -C /repo checkout -- . (tools/try_seed.sh)" % prop,
        "result": caught,
    }
    if note:
        out["strengthening"] = note
    json.dump(out, open(dst + "/meta.json", "w"), indent=1)
    rows.append((name, prop, caught, note))
print(len(rows), "kept")
md = ["| seeded change | result | what had to be strengthened |", "|---|---|---|"]
for name, prop, caught, note in rows:
    md.append("| %s | %s | %s |" % (name, caught, note or "-"))
open("/verif/seeded/TABLE.md", "w").write("\n".join(md) + "\n")
