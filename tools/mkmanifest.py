#!/usr/bin/env python3
"""Regenerates /verif/MANIFEST.json from the table below (kept in one place so
the manifest stays valid while checks are added)."""
import json, sys

CLAIMED = {
 "C01": ("exploration", "§6 C01", "seeded search over single-client programs x knob vectors x comparers x schedules of the background goroutines; every Get/Has and every post-reopen full scan is compared with the ordered-map model M-map; SetReadOnly mid-history; returned values must not change later"),
 "C02": ("exploration", "§6 C02", "iterators on DB/snapshot/transaction with arbitrary ranges and movement scripts checked step by step against the reference cursor M-cursor, over layouts produced by seeded histories and schedules"),
 "C03": ("exploration", "§6 C03", "up to 8 live snapshots and long-lived iterators read after later writes, flushes, compactions and >5 min of simulated time; each read equals the model prefix frozen at creation; transactions, whose iterators may outlive them"),
 "C04": ("fault_enumeration", "§6 C04", "crash points (k-th storage operation of a kind/file type, before/after/inside) x durable-image variants per file x programs; after each crash the DB must reopen and its contents equal apply(T) for a legal subset T containing all sync-acknowledged batches and committed transactions; control run without crashes attributes mismatches; concurrent writers + crash (Sync-acknowledged writes survive); thorough enumerates every storage event index of sampled programs as the crash point; keys of several KiB (records spanning 32 KiB blocks) with crashes at manifest writes; failed commits (manifest sync failures) before the crash"),
 "C06": ("exploration", "§6 C06", "LSM shape invariants evaluated on every version edit decoded from manifest bytes at the storage seam by an independent decoder, over seeded histories, comparers and tiny size knobs; also after Recover (all tables in level 0 by file number)"),
 "C07": ("exploration", "§6 C07", "no removal of live tables / no read of removed tables / storage = live set at scheduler-level quiescence (after reference-cache expiry) under long-lived iterators, discarded transactions and reopen; transaction iterators outliving their transaction; >256 versions behind a pinned iterator; failed flushes/compactions then heal+settle; space-given-back bound over overwrite+compact rounds; failed version commits (manifest faults) then heal + settle; SizeOf/Stats calls; one operation on the real file storage (legacy .sst names, rewrite + compact, directory versus manifest)"),
 "C08": ("fault_enumeration", "§6 C08", "injected storage failures (kind x file type x position x window) during seeded programs, then continued use and reopen; model with indeterminate failed batches; control run without faults attributes mismatches; concurrent writers under faults incl. Close racing a retried commit; bit rot at rest; thorough enumerates every storage event index as the single-failure position; deep-tombstone variant (failed and retried compactions of deletion markers); discard under remove faults"),
 "C09": ("exploration", "§6 C09", "bounded liveness: after the finite fault plan is exhausted every call returns within 600 s of idle simulated time; hang reports name the blocked call and site; concurrent clients under faults; SetReadOnly mid-history with every write entry point x Sync/NoWriteMerge; thorough enumerates single-failure positions; Close racing a retried commit; bit rot then writes/compactions (persistent error state); SetReadOnly among concurrent writers"),
 "C11": ("exploration", "§6 C11", "transaction bodies of any size, reads through the transaction against model-at-open + own writes, commit/discard/reopen, residue check at quiescence; Close racing a commit retried under manifest faults; thorough enumerates crash/failure positions; plain concurrent programs with snapshot re-reads; manifest failures under transaction-routed large batches"),
 "C16": ("exploration", "§6 C16", "programs under varying bloom filter settings incl. policy changes across reopen; results vs model, mismatches confirmed against a filter-free control run; a second filter policy with another name and encoding; snapshot reads of older versions; Recover under a filter; filter-block damage without block checksums"),
 "C20": ("exploration", "§6 C20", "client scribbles over every argument buffer and returned Get value; results vs model, mismatches confirmed against a non-scribbling control run; iterator Key/Value stability; concurrent merged writers: the leader's batch is unchanged; returned values must not change later; batch reused right after Write must not reach the DB; empty values and in-place growth of returned values"),
 "C05": ("exploration", "§6 C05", "2..5 simulated clients under the seeded scheduler; recorded histories checked for linearizability with porcupine against a sequential map, plus batch-atomicity and per-client monotonicity pre-checks; transaction iterators among concurrent writers; snapshots re-read later; Has among the reads"),
 "C10": ("exploration", "§6 C10", "2..6 concurrent writers with merge on/off and oversized batches; journal bytes at the storage seam give the write groups; exactly-once acknowledgement, disjoint sequence ranges, linearizability with groups atomic, bounded liveness; logged at acknowledgement, synced at Sync acknowledgement, caller's batch unchanged; SetReadOnly among the writers; journal failures among the writers; Close with a transaction left open"),
 "C12": ("fault_enumeration", "§6 C12", "journal writer/reader over simulated files: intact round trip; every truncation offset and byte damage for small journals (seeded sample for large); strict and tolerant reader oracles; zero/constant contents and the rule that a yielded record lies within the truncated stream; Reader reused through Reset; Writer.Reset with buffered records"),
 "C13": ("fault_enumeration", "§6 C13", "table writer/reader round trip under all layout knobs, then single-byte alterations in checksummed blocks: results are original pairs or errors; lookups through the filter find every stored key"),
 "C14": ("exploration", "§6 C14", "memdb at statement-level preemption: one writer + readers/iterators under the seeded scheduler; model equality sequentially, ordering/provenance/no-panic concurrently; handed-out slices stay unchanged until Reset"),
 "C17": ("exploration", "§6 C17", "cache at statement-level preemption: value lifecycle, single residency, capacity and liveness oracles under seeded interleavings incl. hash table resize; table growth right before Close/EvictAll; all values finalised once after Close"),
 "C18": ("exploration", "§6 C18", "lifecycle programs: double open, read-only open (no mutating storage call), SetReadOnly, all methods after Close, released handles, calls racing Close; open guards (read-only/ErrorIfMissing/ErrorIfExist); SetReadOnly under table faults; reads racing Close find present keys; one scenario on real file storage (file_storage.go, scratch directory with crash leftovers)"),
 "C19": ("exploration", "§6 C19", "Recover after manifest/CURRENT loss or damage and seeded data-block damage, under the scheduler; exact contents / newest-undamaged rule; explicit Strict levels; filter policy change before Recover with one Options value"),
}
NOTE = "sampling, not proof; trusted base: simrt seeded scheduler over testing/synctest, yieldgen source rewrites (validated by running the repository's own suite on the instrumented tree in pass-through mode), simdisk durability model, reference models; one seed = one replayable execution (event-log hash re-checked in a fresh process on every run)"

def main():
    done = sys.argv[1:]
    checks = []
    for pid in sorted(done):
        cat, ref, text = CLAIMED[pid]
        checks.append({
            "property_id": pid,
            "quick_cmd": "bin/check %s quick" % pid,
            "thorough_cmd": "bin/check %s thorough" % pid,
            "evidence_file": "/verif/evidence/%s.json" % pid,
            "replay_cmd_template": "bin/check replay {path}",
            "engine": "detsim",
            "level_claimed": {"category": cat, "text": text, "design_ref": "DESIGN.md " + ref},
            "level_note": NOTE,
            "technique": "deterministic simulation with fault injection: seeded scheduler + simulated storage + model/monitor oracles over many seeded runs",
        })
    na = [{"property_id": "C15", "reason": "pure function of its inputs (key comparison and index-key shortening laws): no schedule, clock, fault or interleaving exists for a simulator to control; see DESIGN.md §7. Its observable consequence is exercised by C01/C02/C13/C16 runs with custom comparers."}]
    for pid in sorted(CLAIMED):
        if pid not in done:
            na.append({"property_id": pid, "reason": "not claimed yet: the check for this property is still being built/validated on the unchanged tree (applicable in principle; see DESIGN.md §6)"})
    m = {
        "version": 1,
        "setup_cmd": "cd /verif && bin/setup.sh",
        "hooks": {
            "guard": "verif",
            "enable": "no source hook is committed to /repo. Every check copies /repo's working tree to a scratch directory, instruments the copy with /verif/yieldgen (go/ast + go/types rewriter putting goroutines, select, channel operations, sync primitives, sleeps, map ranges, global rand and finalizers behind verif/simrt) and builds it with go1.26.8; the build tag 'verif' is therefore unused",
            "baseline_off_cmd": "cd /repo && go test -vet=off -count=1 -timeout 25m ./...",
            "source_commits": [],
            "add_only": True,
        },
        "engines": [{"name": "detsim", "path": "/verif/bin/check", "serves_properties": sorted(done), "kind_free_text": "deterministic simulation with fault injection: simrt (seeded scheduler over testing/synctest), yieldgen (source instrumenter), simdisk (simulated storage: durability model, error/short-write/stall faults, crash images), independent decoders and seam monitors, reference models, shrinker, replay"}],
        "checks": checks,
        "not_applicable": na,
        "notes": "Genuine defects found by the checks were repaired in /repo as 'fix:' commits; they are listed as fixed entries in /verif/known_findings.json (fixed entries suppress nothing). See DESIGN.md §8. The quick tier explores a fixed number of seeds per property (the same executions and the same evidence counts on any machine; wall time 20-50 s on 16 idle cores, its 1500 s wall clock bound is a watchdog that exits 2); the thorough tier explores for 15 min of wall clock. See DESIGN.md §12.7.",
    }
    json.dump(m, open("/verif/MANIFEST.json", "w"), indent=1)

main()
