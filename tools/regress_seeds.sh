#!/bin/bash
# usage: tools/regress_seeds.sh [parallelism]
# Re-runs every kept seeded change against the quick check of its property
# (scratch worktree, /repo untouched) and lists the ones that are NOT caught.
cd /verif
P=${1:-2}
ls -d seeded/C*/ | sed 's#seeded/##; s#/##' | xargs -P "$P" -I{} sh -c '
  id={}; prop=${id%-*}; [ "$id" = "C20-F" ] && prop=C02
  out=$(tools/try_seed.sh /verif/seeded/$id/patch.diff $prop 2>&1 | grep -m1 "^== ")
  echo "$id $out"' | tee /tmp/regress.log | grep -v "rc=1 VIOLATION" 
echo "done: $(grep -c "rc=1 VIOLATION" /tmp/regress.log) caught of $(wc -l < /tmp/regress.log)"
