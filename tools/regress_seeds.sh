#!/bin/bash
# usage: tools/regress_seeds.sh [parallelism]
# Re-runs every kept seeded change against the quick check of its property
# (scratch worktree, /repo untouched) and lists the ones that are NOT caught.
cd /verif
P=${1:-2}
ls -d seeded/C*/ | sed 's#seeded/##; s#/##' | xargs -P "$P" -I{} sh -c '
  id={}; prop=${id%-*}; [ "$id" = "C20-F" ] && prop=C02; [ "$id" = "C01-G" ] && prop=C08; [ "$id" = "C02-H" ] && prop=C08; [ "$id" = "C09-I" ] && prop=C17
  full=$(tools/try_seed.sh /verif/seeded/$id/patch.diff $prop 2>&1)
  out=$(echo "$full" | grep -m1 "^== ")
  case "$out" in *"rc=2"*) echo "$full" > /tmp/regress-trouble-$id.log;; esac
  echo "$id $out"' | tee /tmp/regress.log | grep -v "rc=1 VIOLATION" 
echo "done: $(grep -c "rc=1 VIOLATION" /tmp/regress.log) caught of $(wc -l < /tmp/regress.log)"
