module verif/harness

go 1.26

require (
	github.com/anishathalye/porcupine v1.3.0
	github.com/golang/snappy v0.0.4
	github.com/syndtr/goleveldb v0.0.0
	verif/simrt v0.0.0
)

replace verif/simrt => /verif/simrt

replace github.com/syndtr/goleveldb => /repo
