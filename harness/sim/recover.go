package sim

import (
	"bytes"
	"fmt"
	"sort"

	"github.com/syndtr/goleveldb/leveldb"
	"github.com/syndtr/goleveldb/leveldb/opt"
	"github.com/syndtr/goleveldb/leveldb/storage"
	"verif/harness/decode"
	"verif/simrt"
)

// C19: Recover rebuilds the DB from its table and journal files.

// Damage describes what is done to the closed, settled image.
type Damage struct {
	Current    string `json:"current"`               // keep, remove, garbage
	Manifest   string `json:"manifest"`              // keep, remove, truncate, garbage
	Frac       uint32 `json:"frac"`                  // truncation point / garbage seed
	FilterOnly bool   `json:"filter_only,omitempty"` // damage filter blocks instead of data blocks
	Blocks     int    `json:"blocks"`                // number of data blocks to damage
	BlockSel   uint64 `json:"block_sel"`
}

type physEntry struct {
	seq   uint64
	del   bool
	val   []byte
	table int64 // -1: journal
	block int
}

func (r *runner) mainRecover() {
	simrt.SetEpoch(1000)
	ops := r.c.Clients[0]
	for r.pos = 0; r.pos < len(ops); r.pos++ {
		if len(r.out.Viol) > 0 || !r.ensureOpen() {
			simrt.Abort("violation")
		}
		r.execOp(&ops[r.pos], nil)
		r.out.OpsDone++
	}
	if len(r.out.Viol) > 0 || !r.ensureOpen() {
		simrt.Abort("violation")
	}
	// settle and shut down cleanly
	r.releaseHandles()
	simrt.Quiesce()
	simrt.IdleFor(301e9)
	simrt.Quiesce()
	simrt.Progress()
	r.closeDB()
	r.disk.NextEpoch(0, 0, false)
	simrt.SetEpoch(r.disk.Epoch + 1000)

	dmg := r.c.Damage
	if dmg == nil {
		dmg = &Damage{Current: "remove", Manifest: "remove"}
	}
	phys := r.physicalEntries()
	damaged := r.applyDamage(dmg)
	r.mon.epochStart()

	// Recover under the scheduler
	r.recovering = true
	err := r.open(true)
	r.recovering = false
	if err != nil {
		r.viol("recover", "recover:failed", fmt.Sprintf("Recover returned %v (damage %+v)", err, *dmg))
		simrt.Abort("violation")
	}
	r.probe("recover")
	if len(damaged) == 0 {
		// exactly the same logical contents, and an ordinary DB afterwards
		r.scanAll("scan")
		if len(r.c.Clients) > 1 && len(r.out.Viol) == 0 {
			post := r.c.Clients[1]
			for i := range post {
				if len(r.out.Viol) > 0 || !r.ensureOpen() {
					break
				}
				r.pos = len(ops) + i
				r.execOp(&post[i], nil)
				r.out.OpsDone++
			}
		}
	} else {
		r.probe("recover-damaged")
		r.checkDamaged(phys, damaged)
	}
	if len(r.out.Viol) > 0 {
		simrt.Abort("violation")
	}
	if r.db != nil {
		r.closeDB()
	}
}

// physicalEntries decodes every table and journal of the settled image.
func (r *runner) physicalEntries() map[string][]physEntry {
	out := map[string][]physEntry{}
	d := r.disk
	for _, fd := range d.ListFiles(storage.TypeTable) {
		data, _ := d.Data(fd)
		t, err := decode.ParseTable(data)
		if err != nil {
			continue
		}
		for _, e := range t.Entries {
			uk, seq, kt, ok := decode.SplitIKey(e.Key)
			if !ok {
				continue
			}
			out[string(uk)] = append(out[string(uk)], physEntry{seq: seq, del: kt == 0, val: e.Val, table: fd.Num, block: e.Block})
		}
	}
	for _, fd := range d.ListFiles(storage.TypeJournal) {
		data, _ := d.Data(fd)
		recs, _, _ := decode.Journal(data)
		for _, jr := range recs {
			seq, brs, err := decode.Batch(jr.Data)
			if err != nil {
				continue
			}
			for i, br := range brs {
				out[string(br.Key)] = append(out[string(br.Key)], physEntry{seq: seq + uint64(i), del: br.Del, val: br.Val, table: -1})
			}
		}
	}
	return out
}

type blockID struct {
	table int64
	block int
}

func (r *runner) applyDamage(dmg *Damage) map[blockID]bool {
	d := r.disk
	meta := d.Meta()
	x := xr{uint64(dmg.Frac)*0x9e3779b97f4a7c15 + dmg.BlockSel}
	switch dmg.Manifest {
	case "remove":
		d.Delete(meta)
	case "truncate":
		if data, ok := d.Data(meta); ok && len(data) > 0 {
			n := int(uint64(dmg.Frac) % uint64(len(data)))
			d.Put(meta, append([]byte(nil), data[:n]...))
		}
	case "garbage":
		if data, ok := d.Data(meta); ok {
			g := make([]byte, len(data)/2+7)
			for i := range g {
				g[i] = byte(x.next())
			}
			d.Put(meta, g)
		}
	}
	switch dmg.Current {
	case "remove":
		d.SetMetaRaw(storage.FileDesc{})
	case "garbage":
		d.MetaCorrupt = true
	}
	damaged := map[blockID]bool{}
	if dmg.Blocks > 0 {
		type cand struct {
			fd  storage.FileDesc
			idx int
			bi  decode.BlockInfo
		}
		var cands []cand
		for _, fd := range d.ListFiles(storage.TypeTable) {
			data, _ := d.Data(fd)
			t, err := decode.ParseTable(data)
			if err != nil {
				continue
			}
			if dmg.FilterOnly {
				if t.Filter != nil {
					cands = append(cands, cand{fd, -1, *t.Filter})
				}
				continue
			}
			for i, b := range t.DataBlocks {
				cands = append(cands, cand{fd, i, b})
			}
		}
		for n := 0; n < dmg.Blocks && len(cands) > 0; n++ {
			i := int(x.next() % uint64(len(cands)))
			c := cands[i]
			cands = append(cands[:i], cands[i+1:]...)
			data, _ := d.Data(c.fd)
			nd := append([]byte(nil), data...)
			if c.bi.Len > 0 {
				off := c.bi.Off + int(x.next()%uint64(c.bi.Len))
				nd[off] ^= byte(1 + x.next()%255)
			}
			d.Put(c.fd, nd)
			damaged[blockID{c.fd.Num, c.idx}] = true
		}
	}
	return damaged
}

type xr struct{ s uint64 }

func (r *xr) next() uint64 {
	r.s += 0x9e3779b97f4a7c15
	z := r.s
	z = (z ^ (z >> 30)) * 0xbf58476d1ce4e5b9
	z = (z ^ (z >> 27)) * 0x94d049bb133111eb
	return z ^ (z >> 31)
}

// checkDamaged applies the C19 clause for damaged data blocks: every entry in
// an undamaged block that has no newer version is returned; nothing is
// returned that was never written.
func (r *runner) checkDamaged(phys map[string][]physEntry, damaged map[blockID]bool) {
	var keys []string
	for k := range phys {
		keys = append(keys, k)
	}
	sort.Strings(keys)
	for _, k := range keys {
		es := phys[k]
		sort.Slice(es, func(i, j int) bool { return es[i].seq > es[j].seq })
		newest := es[0]
		v, err := r.db.Get([]byte(k), nil)
		simrt.Progress()
		found := true
		if err == leveldb.ErrNotFound {
			found = false
		} else if err != nil {
			r.viol("recover", "recover:get-error", fmt.Sprintf("Get(%q) after Recover returned %v", k, err))
			return
		}
		if newest.table < 0 || !damaged[blockID{newest.table, newest.block}] {
			// strong clause
			if found == newest.del || (found && !bytes.Equal(v, newest.val)) {
				r.viol("recover", "recover:lost-undamaged", fmt.Sprintf("key %q: newest version (seq %d, %s) sits in an undamaged block but Get returned %s", k, newest.seq, descPhys(newest), descVal(found, v)))
				return
			}
			continue
		}
		// weak clause: some version once written to this key, or absent
		if found {
			ok := false
			for _, e := range es {
				if !e.del && bytes.Equal(e.val, v) {
					ok = true
				}
			}
			if !ok {
				r.viol("recover", "recover:invented", fmt.Sprintf("key %q: Get returned %s which was never written to it", k, descVal(true, v)))
				return
			}
		}
	}
	// nothing invented: a full scan yields only keys that exist physically
	it := r.db.NewIterator(nil, nil)
	for ok := it.First(); ok; ok = it.Next() {
		if _, known := phys[string(it.Key())]; !known {
			r.viol("recover", "recover:invented", fmt.Sprintf("scan after Recover returned key %q that was never stored", it.Key()))
			break
		}
	}
	it.Release()
	simrt.Progress()
}

func descPhys(e physEntry) string {
	where := "journal"
	if e.table >= 0 {
		where = fmt.Sprintf("table %d block %d", e.table, e.block)
	}
	if e.del {
		return "tombstone in " + where
	}
	return descVal(true, e.val) + " in " + where
}

func genRecover(seed uint64, g *gen, thorough bool) *Case {
	r := g.r
	c := &Case{Prop: "C19", Seed: seed, Scenario: "recover"}
	c.Knobs = g.knobs(pickCmp(r))
	g.cmp = comparerByName(c.Knobs.Comparer).Compare
	c.Sched = g.sched()
	g.makeKeys(r.rng(3, 40))
	p := profile{ops: [2]int{5, 120}, maxMoves: 10, syncP: 0.1}
	p.wWrite, p.wGet, p.wIter, p.wTx, p.wCompact, p.wReopen, p.wSnap = 75, 5, 2, 4, 5, 2, 2
	c.Clients = [][]Op{g.program(p)}
	dm := &Damage{Frac: uint32(r.u64()), BlockSel: r.u64()}
	dm.Current = []string{"keep", "remove", "remove", "garbage"}[r.intn(4)]
	dm.Manifest = []string{"keep", "remove", "remove", "truncate", "truncate", "garbage"}[r.intn(6)]
	if r.p(0.4) {
		dm.Blocks = r.rng(1, 4)
	}
	if r.p(0.3) {
		// small level-0 triggers: automatic level-0 compactions right after
		// Recover, when level 0 holds every table
		c.Knobs.L0Trigger = r.pick(2, 3, 4)
	}
	c.Damage = dm
	if r.p(0.25) {
		// tables written under one filter policy, Recover run under another
		// one that lists the first in AltFilters (same Options value as the
		// last session)
		c.Knobs.FilterBits = r.pick(10, 4, -1)
		k2 := c.Knobs
		k2.AltFilterBits = []int{c.Knobs.FilterBits}
		if c.Knobs.FilterBits < 0 {
			k2.FilterBits = r.pick(0, 10)
		} else {
			k2.FilterBits = r.pick(0, -1)
		}
		c.Clients[0] = append(c.Clients[0], Op{K: "reopen", Knob: &k2})
		for i := r.rng(0, 3); i > 0; i-- {
			c.Clients[0] = append(c.Clients[0], g.writeOp(0.1))
		}
	}
	if r.p(0.4) {
		// explicit strictness levels that keep block checksums on (damage must
		// stay detectable) and leave StrictRecovery off (damage is dropped,
		// not reported): the reader used by Recover must tolerate bad blocks
		c.Knobs.Strict = uint([]opt.Strict{opt.StrictBlockChecksum, opt.StrictBlockChecksum | opt.StrictJournalChecksum, opt.StrictBlockChecksum | opt.StrictCompaction | opt.StrictManifest}[r.intn(3)])
	}
	if dm.Blocks == 0 {
		p2 := profile{ops: [2]int{3, 40}, maxMoves: 20, syncP: 0.1}
		p2.wWrite, p2.wGet, p2.wIter, p2.wCompact, p2.wReopen = 50, 30, 10, 5, 5
		if r.p(0.3) {
			p2.ops = [2]int{40, 150}
			p2.wWrite, p2.wGet, p2.wCompact = 75, 15, 1
		}
		c.Clients = append(c.Clients, g.program(p2))
	}
	return c
}
