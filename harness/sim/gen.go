package sim

import (
	"bytes"
	"fmt"

	"github.com/syndtr/goleveldb/leveldb/opt"
	"github.com/syndtr/goleveldb/leveldb/storage"
	"verif/harness/simdisk"
)

// rnd is the single PRNG every generated choice derives from.
type rnd struct{ s uint64 }

func newRnd(seed uint64, stream uint64) *rnd {
	return &rnd{s: seed*0x9e3779b97f4a7c15 ^ stream*0xd1342543de82ef95 ^ 0x1234567}
}

func (r *rnd) u64() uint64 {
	r.s += 0x9e3779b97f4a7c15
	z := r.s
	z = (z ^ (z >> 30)) * 0xbf58476d1ce4e5b9
	z = (z ^ (z >> 27)) * 0x94d049bb133111eb
	return z ^ (z >> 31)
}
func (r *rnd) intn(n int) int {
	if n <= 1 {
		return 0
	}
	return int(r.u64() % uint64(n))
}
func (r *rnd) rng(lo, hi int) int { return lo + r.intn(hi-lo+1) }
func (r *rnd) p(x float64) bool   { return float64(r.u64()>>11)/float64(1<<53) < x }
func (r *rnd) pick(xs ...int) int { return xs[r.intn(len(xs))] }

// gen carries generator state for one case.
type gen struct {
	r          *rnd
	keys       [][]byte
	nextID     uint32
	wb         int
	bs         int
	cmp        func(a, b []byte) int
	bigJournal bool
	bigKeys    int  // > 0: every key gets a tail of about this many bytes
	allowEmpty bool // single-client programs also store empty values
}

func (g *gen) val(maxLen int) V {
	g.nextID++
	l := 0
	if g.allowEmpty && g.r.p(0.04) {
		return V{ID: g.nextID, Len: 0} // the empty value
	}
	switch x := g.r.intn(100); {
	case x < 60:
		l = g.r.rng(minValLen, 40)
	case x < 85:
		l = g.r.rng(40, 200)
	case x < 95:
		l = g.r.rng(g.bs/2, g.bs*2+16)
	default:
		l = g.r.rng(g.wb/2, g.wb*2)
	}
	if l > maxLen {
		l = maxLen
	}
	if l > 40000 {
		l = 40000
	}
	if l < minValLen {
		l = minValLen
	}
	return V{ID: g.nextID, Len: l}
}

func (g *gen) makeKeys(n int) {
	alpha := []string{"ab", "abc", "\x00\xff", "aAbB", "xyz\xff", "01"}[g.r.intn(6)]
	prefix := ""
	if g.r.p(0.3) {
		prefix = []string{"user/", "k", "\xff\xff", "prefix-long-shared-"}[g.r.intn(4)]
	}
	seen := map[string]bool{}
	tries := 0
	for len(g.keys) < n && tries < n*20 {
		tries++
		l := g.r.rng(0, 6)
		if g.r.p(0.1) {
			l = g.r.rng(6, 14)
		}
		b := []byte(prefix)
		if g.r.p(0.15) {
			b = nil
		}
		for i := 0; i < l; i++ {
			b = append(b, alpha[g.r.intn(len(alpha))])
		}
		if len(b) == 0 && !g.r.p(0.3) {
			continue
		}
		if b == nil {
			b = []byte{}
		}
		if seen[string(b)] {
			continue
		}
		seen[string(b)] = true
		if g.bigKeys > 0 {
			b = append(b, bytes.Repeat([]byte{alpha[0]}, g.bigKeys/2+g.r.intn(g.bigKeys))...)
		}
		g.keys = append(g.keys, b)
	}
}

func (g *gen) key() B {
	n := len(g.keys)
	// bias toward a hot subset so overwrites and tombstones matter
	if g.r.p(0.5) {
		return B(g.keys[g.r.intn((n+3)/4)])
	}
	return B(g.keys[g.r.intn(n)])
}

// anyKey returns a stored key, a neighbour, or something never written.
func (g *gen) anyKey() B {
	switch x := g.r.intn(10); {
	case x < 6:
		return g.key()
	case x < 8:
		k := append([]byte(nil), g.key()...)
		if len(k) > 0 && g.r.p(0.5) {
			k[len(k)-1]++
		} else {
			k = append(k, byte(g.r.intn(256)))
		}
		return k
	default:
		k := append([]byte(nil), g.key()...)
		if len(k) > 0 {
			k = k[:len(k)-1]
		}
		return k
	}
}

func (g *gen) knobs(cmp string) Knobs {
	r := g.r
	k := Knobs{Comparer: cmp}
	k.WriteBuffer = r.pick(256, 512, 1024, 1024, 2048, 4096, 16384, 65536)
	k.TableSize = r.pick(256, 512, 1024, 2048, 4096, 16384)
	k.TotalSize = r.pick(1024, 2048, 4096, 8192, 65536)
	k.TotalMult = float64(r.pick(2, 2, 4, 10))
	k.L0Trigger = r.pick(1, 2, 2, 3, 4, 6)
	k.L0Slowdown = k.L0Trigger + r.rng(0, 4)
	k.L0Pause = k.L0Slowdown + r.rng(0, 4)
	if r.p(0.3) {
		k.ExpandLimit = r.pick(1, 2, 5, 25)
		k.GPOverlaps = r.pick(1, 2, 10)
		k.SourceLimit = r.pick(1, 2, 4)
	}
	k.BlockSize = r.pick(64, 128, 256, 512, 1024, 4096)
	k.RestartInterval = r.pick(1, 2, 3, 8, 16, 32)
	k.NoCompression = r.p(0.4)
	if r.p(0.5) {
		k.FilterBits = r.pick(1, 4, 10, 16, 64, -1)
		k.FilterBaseLg = r.pick(0, 4, 6, 11, 14)
	}
	switch r.intn(4) {
	case 0:
		k.BlockCache = -1
	case 1:
		k.BlockCache = r.pick(256, 1024, 4096)
	}
	switch r.intn(4) {
	case 0:
		k.OpenFiles = -1
	case 1:
		k.OpenFiles = r.pick(1, 2, 4)
	}
	k.DisableBufferPool = r.p(0.3)
	k.DisableBlockCache = r.p(0.15)
	k.EvictRemoved = r.p(0.3)
	if r.p(0.4) {
		k.SamplingRate = r.pick(64, 256, 4096)
	}
	k.DisableSeeks = r.p(0.2)
	k.NoWriteMerge = r.p(0.2)
	k.DisableLargeBatchTx = r.p(0.2)
	k.DisableBackoff = r.p(0.3)
	if r.p(0.4) {
		k.MaxManifest = int64(r.pick(1, 64, 256, 1024, 4096))
	}
	g.wb, g.bs = k.WriteBuffer, k.BlockSize
	return k
}

func (g *gen) sched() SchedCfg {
	r := g.r
	s := SchedCfg{}
	switch r.intn(10) {
	case 0, 1, 2, 3, 4:
		s.Strategy = 0
		s.YieldP = []float64{0, 0.0005, 0.002, 0.01, 0.05}[r.intn(5)]
	default:
		s.Strategy = 1
		s.PCTDepth = r.rng(0, 8)
		s.PCTHorizon = int64(r.pick(2000, 20000, 100000, 400000))
	}
	if r.p(0.3) {
		s.StallP = []float64{0.0005, 0.005, 0.02}[r.intn(3)]
	}
	if r.p(0.5) {
		s.PoolDropP = []float64{0.1, 0.5}[r.intn(2)]
	}
	return s
}

func (g *gen) batch(maxRecs int) []Rec {
	n := g.r.rng(1, maxRecs)
	var recs []Rec
	for i := 0; i < n; i++ {
		if g.r.p(0.25) {
			recs = append(recs, Rec{Del: true, Key: g.key()})
		} else {
			recs = append(recs, Rec{Key: g.key(), Val: g.val(g.wb * 2)})
		}
	}
	return recs
}

func (g *gen) writeOp(syncP float64) Op {
	r := g.r
	var op Op
	if g.bigJournal && r.p(0.25) {
		// a batch of 40..100 KiB that stays below the write buffer: one
		// journal record over several blocks
		var recs []Rec
		tot, want := 0, r.rng(40000, 100000)
		for tot < want {
			v := g.val(8000)
			v.Len = r.rng(500, 8000)
			recs = append(recs, Rec{Key: g.key(), Val: v})
			tot += v.Len + 16
		}
		return Op{K: "write", Recs: recs, Sync: r.p(syncP)}
	}
	switch x := r.intn(100); {
	case x < 55:
		op = Op{K: "put", Key: g.key(), Val: g.val(g.wb * 2)}
	case x < 75:
		op = Op{K: "del", Key: g.anyKey()}
	case x < 97:
		op = Op{K: "write", Recs: g.batch(8)}
	default:
		// a batch larger than the write buffer (transaction route)
		var recs []Rec
		tot := 0
		for tot < g.wb+g.wb/2 && len(recs) < 400 {
			v := g.val(g.wb)
			if v.Len < 64 {
				v.Len = 64
			}
			recs = append(recs, Rec{Key: g.key(), Val: v})
			tot += v.Len + 16
		}
		op = Op{K: "write", Recs: recs}
	}
	op.Sync = r.p(syncP)
	op.NoMerge = r.p(0.1)
	return op
}

func (g *gen) rangeOf(op *Op) {
	r := g.r
	if r.p(0.5) {
		op.HasS = true
		op.Start = g.anyKey()
	}
	if r.p(0.5) {
		op.HasL = true
		op.Limit = g.anyKey()
	}
	// mostly well-formed ranges; an inverted range denotes the empty set
	if op.HasS && op.HasL && g.cmp(op.Start, op.Limit) > 0 && !r.p(0.05) {
		op.Start, op.Limit = op.Limit, op.Start
	}
}

func (g *gen) moves(n int) []Move {
	r := g.r
	var mv []Move
	dirBias := r.p(0.5)
	for i := 0; i < n; i++ {
		x := r.intn(100)
		switch {
		case x < 8:
			mv = append(mv, Move{K: "first"})
		case x < 16:
			mv = append(mv, Move{K: "last"})
		case x < 32:
			mv = append(mv, Move{K: "seek", Key: g.anyKey()})
		default:
			fw := dirBias
			if r.p(0.25) {
				fw = !fw
			}
			if r.p(0.05) {
				dirBias = !dirBias
			}
			if fw {
				mv = append(mv, Move{K: "next"})
			} else {
				mv = append(mv, Move{K: "prev"})
			}
		}
	}
	return mv
}

func (g *gen) iterOp(via string, slot int, maxMoves int) Op {
	op := Op{K: "iter", Via: via, Slot: slot}
	if g.r.p(0.6) {
		g.rangeOf(&op)
	}
	n := g.r.rng(1, maxMoves)
	if g.r.p(0.2) {
		// full ordered walk
		op.Moves = append(op.Moves, Move{K: "first"})
		for i := 0; i < n; i++ {
			op.Moves = append(op.Moves, Move{K: "next"})
		}
	} else if g.r.p(0.15) {
		op.Moves = append(op.Moves, Move{K: "last"})
		for i := 0; i < n; i++ {
			op.Moves = append(op.Moves, Move{K: "prev"})
		}
	} else {
		op.Moves = g.moves(n)
	}
	op.DontFill = g.r.p(0.2)
	return op
}

func (g *gen) txOp() Op {
	r := g.r
	op := Op{K: "tx", Commit: r.p(0.7), Ms: r.pick(0, 0, 0, 1500, 6000)}
	n := r.rng(1, 12)
	big := r.p(0.25)
	kept := false
	if big {
		n = r.rng(6, 24)
	}
	for i := 0; i < n; i++ {
		switch x := r.intn(100); {
		case x < 55:
			w := g.writeOp(0)
			w.Sync, w.NoMerge = false, false
			if big && w.K == "put" {
				w.Val.Len = g.wb/2 + r.intn(g.wb)
			}
			op.Body = append(op.Body, w)
		case x < 80:
			op.Body = append(op.Body, Op{K: []string{"get", "has"}[r.intn(2)], Key: g.anyKey(), Via: "tx"})
		case x < 90 || !kept:
			it := g.iterOp("tx", 0, 12)
			if r.p(0.4) {
				// an iterator that stays open while the transaction grows
				it.Keep = true
				it.Slot = 0
				kept = true
			}
			op.Body = append(op.Body, it)
		default:
			op.Body = append(op.Body, Op{K: "iterstep", Slot: 0, Moves: g.moves(r.rng(1, 15))})
		}
	}
	return op
}

// profile weights the operation mix of the DB-level generator.
type profile struct {
	ops             [2]int
	keys            [2]int
	wWrite          int
	wGet            int
	wIter           int
	wSnap           int
	wSnapRead       int
	wTx             int
	wCompact        int
	wReopen         int
	wSleep          int
	wSettle         int
	wKeepIter       int
	wStats          int
	syncP           float64
	maxMoves        int
	cmpBytewiseOnly bool
}

func (g *gen) program(p profile) []Op {
	r := g.r
	n := r.rng(p.ops[0], p.ops[1])
	tot := p.wWrite + p.wGet + p.wIter + p.wSnap + p.wSnapRead + p.wTx + p.wCompact + p.wReopen + p.wSleep + p.wSettle + p.wKeepIter + p.wStats
	var ops []Op
	liveSnaps := map[int]bool{}
	liveIters := map[int]bool{}
	for len(ops) < n {
		x := r.intn(tot)
		switch {
		case x < p.wWrite:
			// bursts fill buffers and trigger flush/compaction
			b := 1
			if r.p(0.3) {
				b = r.rng(2, 12)
			}
			for i := 0; i < b; i++ {
				ops = append(ops, g.writeOp(p.syncP))
			}
			continue
		default:
		}
		x -= p.wWrite
		switch {
		case x < p.wGet:
			ops = append(ops, Op{K: []string{"get", "get", "has"}[r.intn(3)], Key: g.anyKey(), DontFill: r.p(0.1)})
			continue
		}
		x -= p.wGet
		if x < p.wIter {
			ops = append(ops, g.iterOp("", 0, p.maxMoves))
			continue
		}
		x -= p.wIter
		if x < p.wSnap {
			slot := r.intn(8)
			if liveSnaps[slot] && r.p(0.5) {
				ops = append(ops, Op{K: "snaprel", Slot: slot})
				delete(liveSnaps, slot)
			} else {
				ops = append(ops, Op{K: "snap", Slot: slot})
				liveSnaps[slot] = true
			}
			continue
		}
		x -= p.wSnap
		if x < p.wSnapRead {
			if len(liveSnaps) == 0 {
				continue
			}
			var slots []int
			for s := 0; s < 8; s++ {
				if liveSnaps[s] {
					slots = append(slots, s)
				}
			}
			slot := slots[r.intn(len(slots))]
			if r.p(0.6) {
				ops = append(ops, Op{K: []string{"get", "has"}[r.intn(2)], Key: g.anyKey(), Via: "snap", Slot: slot})
			} else {
				ops = append(ops, g.iterOp("snap", slot, p.maxMoves))
			}
			continue
		}
		x -= p.wSnapRead
		if x < p.wTx {
			tx := g.txOp()
			if r.p(0.35) {
				// an iterator of the transaction outlives Commit/Discard
				for _, b := range tx.Body {
					if b.K == "iter" && b.Keep {
						slot := 4 + r.intn(2)
						if !liveIters[slot] {
							tx.Outlive = slot
							liveIters[slot] = true
						}
						break
					}
				}
			}
			ops = append(ops, tx)
			continue
		}
		x -= p.wTx
		if x < p.wCompact {
			op := Op{K: "compact"}
			if r.p(0.5) {
				g.rangeOf(&op)
			}
			ops = append(ops, op)
			continue
		}
		x -= p.wCompact
		if x < p.wReopen {
			op := Op{K: "reopen"}
			if r.p(0.25) {
				op.K = "setro"
			}
			if r.p(0.5) {
				k := g.knobs("")
				op.Knob = &k
			}
			ops = append(ops, op)
			liveSnaps = map[int]bool{}
			liveIters = map[int]bool{}
			continue
		}
		x -= p.wReopen
		if x < p.wSleep {
			ops = append(ops, Op{K: "sleep", Ms: r.pick(10, 1000, 31000, 301000, 400000)})
			continue
		}
		x -= p.wSleep
		if x < p.wSettle {
			ops = append(ops, Op{K: "settle"})
			continue
		}
		x -= p.wSettle
		if x < p.wKeepIter {
			slot := r.intn(6)
			if slot >= 4 && !liveIters[slot] {
				slot -= 4 // slots 4 and 5 only ever hold iterators that outlived a transaction
			}
			switch {
			case !liveIters[slot]:
				op := g.iterOp("", slot, 6)
				op.Keep = true
				ops = append(ops, op)
				liveIters[slot] = true
			case r.p(0.7):
				ops = append(ops, Op{K: "iterstep", Slot: slot, Moves: g.moves(r.rng(1, 10))})
			default:
				ops = append(ops, Op{K: "iterrel", Slot: slot})
				delete(liveIters, slot)
			}
			continue
		}
		st := Op{K: "stats"}
		if r.p(0.7) {
			g.rangeOf(&st)
		}
		ops = append(ops, st)
	}
	return ops
}

// ---- per-property case generators ----

func pickCmp(r *rnd) string {
	if r.p(0.5) {
		return "bytewise"
	}
	return comparerNames[r.intn(len(comparerNames))]
}

// GenCase derives the case for (property, seed).
func GenCase(prop string, seed uint64, thorough bool) *Case {
	r := newRnd(seed, uint64(len(prop))+uint64(prop[1])<<8+uint64(prop[2])<<16)
	g := &gen{r: r}
	c := &Case{Prop: prop, Seed: seed, Scenario: "seq"}
	switch prop {
	case "C12", "C13", "C14", "C17":
		return genComponent(prop, seed, g, thorough)
	case "C05", "C10":
		return genConc(prop, seed, g, thorough)
	case "C04":
		if r.p(0.2) {
			return genConcCrash(seed, g)
		}
	case "C08":
		if r.p(0.25) {
			return genConcFault(prop, seed, g)
		}
	case "C20":
		if r.p(0.5) {
			// merged writers: the leader's batch must come back unchanged
			return genConc(prop, seed, g, thorough)
		}
	case "C11":
		if r.p(0.15) {
			// a commit whose manifest write fails and is retried, racing Close
			return genConcFault(prop, seed, g)
		}
		if r.p(0.12) {
			// transactions among concurrent readers, snapshot takers and
			// writers: nobody sees a transaction half-committed, a snapshot
			// taken during a commit stays what it was
			return genConc(prop, seed, g, thorough)
		}
	case "C09":
		if r.p(0.12) {
			// Close racing a transaction commit that is retried after manifest
			// faults, with other writers (and compactions) in flight
			return genConcFault(prop, seed, g)
		}
		if r.p(0.4) {
			// concurrent writers under injected faults: everyone gets an answer
			cc := genConc(prop, seed, g, thorough)
			g.faultPlan(cc, prop)
			for _, f := range cc.Faults {
				// bias toward the journal: the write path holds the write lock
				if r.p(0.5) {
					f.FT = int(storage.TypeJournal)
					if f.Op != simdisk.OpWrite && f.Op != simdisk.OpSync && f.Op != simdisk.OpCreate {
						f.Op = []string{simdisk.OpWrite, simdisk.OpSync, simdisk.OpCreate}[r.intn(3)]
					}
				}
			}
			return cc
		}
	case "C18":
		return genLife(seed, g, thorough)
	case "C19":
		return genRecover(seed, g, thorough)
	case "C16":
		if r.p(0.1) {
			// tables rebuilt by Recover carry filters too
			cc := genRecover(seed, g, thorough)
			cc.Prop = "C16"
			if cc.Knobs.FilterBits == 0 {
				cc.Knobs.FilterBits = r.pick(10, 4, 1, -1)
			}
			if cc.Damage.Blocks == 0 && r.p(0.7) {
				cc.Damage.Blocks = r.rng(1, 3)
			}
			return cc
		}
	case "C06":
		if r.p(0.12) {
			// the well-formedness conditions "must hold after ... Recover":
			// lose the manifest, Recover (every table lands in level 0, ordered
			// by file number), then a write-heavy program on the repaired DB
			cc := genRecover(seed, g, thorough)
			cc.Prop = "C06"
			return cc
		}
	}
	g.allowEmpty = true // everything below is a single-client program
	c.Knobs = g.knobs(pickCmp(r))
	g.cmp = comparerByName(c.Knobs.Comparer).Compare
	c.Sched = g.sched()
	scale := 1
	if thorough && r.p(0.3) {
		scale = 3
	}
	p := profile{ops: [2]int{20, 150 * scale}, keys: [2]int{3, 48}, maxMoves: 40, syncP: 0.1}
	switch prop {
	case "C01":
		p.wWrite, p.wGet, p.wIter, p.wTx, p.wCompact, p.wReopen, p.wSleep, p.wStats = 50, 30, 2, 3, 4, 4, 1, 1
	case "C02":
		p.wWrite, p.wGet, p.wIter, p.wSnap, p.wSnapRead, p.wTx, p.wCompact, p.wReopen = 45, 3, 30, 4, 8, 4, 3, 2
		p.maxMoves = 120
	case "C03":
		p.wWrite, p.wGet, p.wIter, p.wSnap, p.wSnapRead, p.wCompact, p.wReopen, p.wSleep, p.wKeepIter, p.wTx = 45, 3, 2, 10, 25, 5, 1, 3, 12, 4
	case "C06":
		p.wWrite, p.wGet, p.wIter, p.wTx, p.wCompact, p.wReopen, p.wSnap = 70, 5, 3, 4, 6, 3, 2
	case "C07":
		p.wWrite, p.wGet, p.wIter, p.wSnap, p.wTx, p.wCompact, p.wReopen, p.wSleep, p.wSettle, p.wKeepIter, p.wStats = 55, 3, 2, 2, 4, 6, 3, 4, 6, 15, 3
		c.Knobs.MaxManifest = 0
	case "C16":
		p.wWrite, p.wGet, p.wIter, p.wCompact, p.wReopen, p.wSnap, p.wSnapRead = 50, 30, 8, 4, 8, 4, 12
		if c.Knobs.FilterBits == 0 {
			c.Knobs.FilterBits = r.pick(1, 2, 10, 64, -1)
		}
		c.Knobs.FilterBaseLg = r.pick(0, 4, 5, 8, 11, 14)
		c.Knobs.BlockSize = r.pick(64, 128, 256)
		c.Knobs.TableSize = r.pick(4096, 16384, 65536)
	case "C20":
		p.wWrite, p.wGet, p.wIter, p.wSnap, p.wSnapRead, p.wTx, p.wCompact, p.wReopen = 45, 30, 10, 2, 4, 4, 4, 2
	case "C11":
		p.wWrite, p.wGet, p.wIter, p.wTx, p.wCompact, p.wReopen, p.wSettle = 35, 10, 3, 30, 3, 4, 4
	case "C04":
		p.wWrite, p.wGet, p.wIter, p.wTx, p.wCompact, p.wReopen = 65, 8, 2, 5, 4, 2
		if r.p(0.15) {
			// journal records spanning several 32 KiB blocks
			c.Knobs.WriteBuffer = r.pick(131072, 262144)
			g.wb = c.Knobs.WriteBuffer
			g.bigJournal = true
		}
		p.syncP = []float64{0.05, 0.3, 0.7}[r.intn(3)]
		p.ops = [2]int{15, 100 * scale}
		if !g.bigJournal && r.p(0.06) {
			// keys of several KiB: manifest records (table bounds) and journal
			// records cross 32 KiB block boundaries after a few edits
			g.bigKeys = r.pick(2000, 5000, 9000)
			p.ops = [2]int{6, 40}
		}
		c.Scenario = "crash"
	case "C08", "C09":
		p.wWrite, p.wGet, p.wIter, p.wTx, p.wCompact, p.wReopen = 60, 12, 3, 6, 5, 4
		p.syncP = 0.3
		p.ops = [2]int{15, 100 * scale}
		c.Scenario = "fault"
	default:
		p.wWrite, p.wGet = 60, 40
	}
	g.makeKeys(r.rng(p.keys[0], p.keys[1]))
	ops := g.program(p)
	if prop == "C20" {
		for i := range ops {
			ops[i].Scrib = true
			for j := range ops[i].Body {
				ops[i].Body[j].Scrib = true
			}
		}
		c.Sched.PoolDropP = 0
	}
	if prop == "C16" && r.p(0.08) {
		// a damaged filter block must be ignored or reported, never believed:
		// block checksums are switched off for data blocks (Strict without
		// StrictBlockChecksum), filter blocks are altered at rest, and every
		// stored key must still be found
		c.Knobs.Strict = uint(opt.StrictJournalChecksum)
		at := len(ops) / 2
		rot := Op{K: "rot", Via: "filter", Slot: r.rng(1, 4), Ms: int(r.u64() % 1000000)}
		ops = append(ops[:at:at], append([]Op{rot}, ops[at:]...)...)
		for i := range ops {
			if ops[i].Knob != nil {
				ops[i].Knob.Strict = c.Knobs.Strict
			}
		}
		for _, k := range g.keys {
			ops = append(ops, Op{K: []string{"get", "has"}[r.intn(2)], Key: B(k)})
		}
		c.Rot = true
	}
	if prop == "C16" {
		// change the filter policy across reopens, with and without AltFilters
		for i := range ops {
			if ops[i].K == "reopen" || ops[i].K == "setro" {
				k := c.Knobs
				k.FilterBits = r.pick(0, 1, 4, 10, 64, -1, -1)
				k.FilterBaseLg = r.pick(0, 4, 5, 8, 11, 14)
				if r.p(0.5) {
					// policies (by name) that older tables may have been written under
					k.AltFilterBits = [][]int{{10}, {-1}, {10, -1}, {-1, 10}}[r.intn(4)]
				}
				ops[i].Knob = &k
			}
		}
	}
	if prop != "C16" {
		// a reopen under another filter policy lists the previous one in
		// AltFilters (60%), as an application that changes its policy would
		cur := c.Knobs.FilterBits
		for i := range ops {
			if k := ops[i].Knob; k != nil && (ops[i].K == "reopen" || ops[i].K == "setro") {
				if cur != 0 && k.FilterBits != cur && r.p(0.6) {
					k.AltFilterBits = []int{cur}
				}
				cur = k.FilterBits
			}
		}
	}
	c.Clients = [][]Op{ops}
	if prop == "C03" && r.p(0.35) {
		// a concurrent observer taking snapshots; the DB must stay open
		var keep []Op
		for _, o := range ops {
			if o.K != "reopen" && o.K != "setro" {
				keep = append(keep, o)
			}
		}
		c.Clients[0] = keep
		var obs []Op
		for i := r.rng(3, 25); i > 0; i-- {
			obs = append(obs, Op{K: "observe", Ms: r.pick(0, 0, 1, 50, 2000)})
		}
		c.Clients = append(c.Clients, obs)
		if c.Sched.Strategy == 0 && c.Sched.YieldP < 0.002 {
			c.Sched.YieldP = []float64{0.002, 0.01, 0.05}[r.intn(3)]
		}
	}
	if prop == "C07" && len(c.Clients) == 1 && r.p(0.05) {
		// the same on the real file storage, with legacy table names
		ops := c.Clients[0]
		for i := 0; i < 6; i++ {
			ops = append(ops, Op{K: "iterrel", Slot: i})
		}
		c.Clients[0] = append(ops, Op{K: "fsrw", Ms: int(r.u64() % 1000000)})
	} else if prop == "C07" && len(c.Clients) == 1 && r.p(0.15) {
		// space is given back: K rounds of overwrite-everything + full compaction
		ops := c.Clients[0]
		for i := 0; i < 6; i++ {
			ops = append(ops, Op{K: "iterrel", Slot: i})
		}
		for i := 0; i < 8; i++ {
			ops = append(ops, Op{K: "snaprel", Slot: i})
		}
		K := r.rng(3, 6)
		L := r.pick(20, 100, 400)
		for round := 1; round <= K; round++ {
			for _, k := range g.keys {
				g.nextID++
				ops = append(ops, Op{K: "put", Key: B(k), Val: V{ID: g.nextID, Len: L}})
			}
			ops = append(ops, Op{K: "compact"}, Op{K: "measure", Slot: round, Ms: K})
		}
		c.Clients[0] = ops
	} else if prop == "C07" && len(c.Clients) == 1 && r.p(0.08) {
		// more than 256 version changes behind one pinned version: the
		// reference tracker gives up delta processing for the pinned version
		// and switches to full file references
		ops := c.Clients[0]
		if len(ops) > 40 {
			ops = ops[:40]
		}
		for i := 0; i < 6; i++ {
			ops = append(ops, Op{K: "iterrel", Slot: i})
		}
		c.Knobs.WriteBuffer = r.pick(64, 128, 256)
		g.wb = c.Knobs.WriteBuffer
		pin := g.iterOp("", 0, 6)
		pin.Keep = true
		ops = append(ops, pin)
		second := r.p(0.5)
		for i, n := 0, r.rng(280, 420); i < n; i++ {
			g.nextID++
			ops = append(ops, Op{K: "put", Key: g.anyKey(), Val: V{ID: g.nextID, Len: r.rng(100, 300)}})
			if second && i == n/2 {
				p2 := g.iterOp("", 1, 6)
				p2.Keep = true
				ops = append(ops, p2)
			}
			if r.p(0.03) {
				ops = append(ops, Op{K: "iterstep", Slot: r.intn(2), Moves: g.moves(r.rng(1, 6))})
			}
		}
		ops = append(ops, Op{K: "iterstep", Slot: 0, Moves: g.moves(r.rng(5, 40))}, Op{K: "iterstep", Slot: 1, Moves: g.moves(r.rng(1, 20))})
		if r.p(0.5) {
			ops = append(ops, Op{K: "iterrel", Slot: 1}, Op{K: "iterrel", Slot: 0})
		} else {
			ops = append(ops, Op{K: "iterrel", Slot: 0}, Op{K: "iterrel", Slot: 1})
		}
		ops = append(ops, Op{K: "settle"})
		c.Clients[0] = ops
	} else if prop == "C07" && r.p(0.3) {
		// failed flushes/compactions: faults on table files only, so that
		// every manifest commit that is attempted succeeds and the monitor's
		// view of the live set stays exact
		for i := r.rng(1, 3); i > 0; i-- {
			f := &simdisk.Fault{Kind: "err", Op: []string{simdisk.OpWrite, simdisk.OpSync, simdisk.OpCreate, simdisk.OpClose, simdisk.OpOpen, simdisk.OpRead}[r.intn(6)], FT: int(storage.TypeTable), Nth: r.rng(1, 40), Count: r.rng(1, 3), Epoch: -1}
			c.Faults = append(c.Faults, f)
		}
		if r.p(0.4) {
			// failed version commits as well: once the faults have stopped
			// and a commit has succeeded, the manifest and the DB agree again
			// and the settle check applies
			for i := r.rng(1, 2); i > 0; i-- {
				c.Faults = append(c.Faults, &simdisk.Fault{Kind: "err", Op: []string{simdisk.OpWrite, simdisk.OpSync}[r.intn(2)], FT: int(storage.TypeManifest), Nth: r.rng(2, 30), Count: r.pick(1, 2, 3, 5), Epoch: -1})
			}
			if r.p(0.5) {
				// a commit that fails all three attempts while a level-0
				// compaction is in flight (its commit then starts the next
				// manifest before the transaction is discarded)
				c.Faults[len(c.Faults)-1].Op, c.Faults[len(c.Faults)-1].Nth, c.Faults[len(c.Faults)-1].Count = simdisk.OpSync, r.rng(2, 9), 3
				c.Knobs.L0Trigger = r.pick(1, 1, 2)
			}
			// transactions whose commit may fail for good, discarded only
			// after a while (background commits may go through meanwhile)
			ops0 := c.Clients[0]
			for i := r.rng(1, 3); i > 0; i-- {
				at := r.intn(len(ops0) + 1)
				tx := g.txOp()
				tx.Commit, tx.Ms = true, r.pick(1500, 6000, 31000)
				ops0 = append(ops0[:at:at], append([]Op{tx}, ops0[at:]...)...)
			}
			c.Clients[0] = ops0
		}
		c.TableFaultsOnly = true
		ops := append(c.Clients[0], Op{K: "heal"})
		for i := r.rng(4, 20); i > 0; i-- {
			ops = append(ops, g.writeOp(0.1))
		}
		c.Clients[0] = append(ops, Op{K: "compact"}, Op{K: "settle"})
	}
	if prop == "C11" && len(c.Clients) == 1 && r.p(0.1) {
		// commits that fail: manifest syncs fail for a while, so that explicit
		// transactions and batches that are routed through a transaction
		// (larger than the write buffer) fail to commit; afterwards everybody
		// must still get answers, and a failed commit is all or nothing
		c.Knobs.WriteBuffer = r.pick(512, 1024)
		c.Knobs.DisableLargeBatchTx = false
		c.Faults = append(c.Faults, &simdisk.Fault{Kind: "err", Op: []string{simdisk.OpSync, simdisk.OpWrite}[r.intn(2)], FT: int(storage.TypeManifest), Nth: r.rng(2, 12), Count: r.rng(3, 9), Epoch: -1})
	}
	switch c.Scenario {
	case "crash":
		g.crashPlan(c)
		if prop == "C04" && g.bigKeys == 0 && r.p(0.08) {
			// failed commits before the crash: manifest syncs fail for a
			// while (the records are written all the same), transactions are
			// committed in vain and discarded, and then the power goes
			c.Faults = append(c.Faults, &simdisk.Fault{Kind: "err", Op: simdisk.OpSync, FT: int(storage.TypeManifest), Nth: r.rng(2, 10), Count: r.rng(4, 14), Epoch: 0})
			ops := c.Clients[0]
			for i := r.rng(2, 4); i > 0; i-- {
				at := r.intn(len(ops) + 1)
				tx := g.txOp()
				tx.Commit = true
				ops = append(ops[:at:at], append([]Op{tx}, ops[at:]...)...)
			}
			c.Clients[0] = ops
		}
		if g.bigKeys > 0 {
			// tear the (multi-chunk) manifest records
			for _, f := range c.Faults {
				if f.Kind == "crash" && r.p(0.7) {
					f.Op, f.FT, f.Nth, f.After = simdisk.OpWrite, int(storage.TypeManifest), r.rng(2, 14), r.p(0.8)
				}
			}
		}
	case "fault":
		if prop == "C08" && r.p(0.15) || prop == "C09" && len(c.Clients) == 1 && r.p(0.1) {
			// bit rot at rest instead of operation failures
			ops := c.Clients[0]
			at := len(ops) / 2
			if at < 1 {
				at = len(ops)
			}
			rot := Op{K: "rot", Slot: r.rng(1, 3), Ms: int(r.u64() % 1000000)}
			ops = append(ops[:at:at], append([]Op{rot}, ops[at:]...)...)
			if prop == "C09" {
				// keep writing and compacting: a compaction that meets the
				// damage puts the DB into its persistent error state, after
				// which every call must fail at once instead of waiting
				for i := r.rng(10, 40); i > 0; i-- {
					ops = append(ops, g.writeOp(0.2))
					if r.p(0.1) {
						ops = append(ops, Op{K: "compact"})
					}
				}
				ops = append(ops, Op{K: "compact"}, g.txOp(), g.writeOp(0.5))
			}
			for i := at + 1; i < len(ops) && prop == "C08"; i++ {
				if ops[i].K == "tx" || ops[i].K == "compact" {
					ops[i] = Op{K: "get", Key: g.anyKey()}
				}
			}
			c.Clients[0] = ops
			c.Faults = nil
			c.Rot = true
		} else if prop == "C08" && r.p(0.15) {
			g.deepTombstones(c)
		} else if prop == "C08" && r.p(0.1) {
			g.discardUnderRemoveFaults(c)
		} else {
			g.faultPlan(c, prop)
		}
	}
	return c
}

// discardUnderRemoveFaults: transactions whose tables were read through the
// transaction (so their blocks sit in the block cache) are discarded while
// removing table files fails; the next transaction writes the same keys with
// other values and commits. File numbers, cached blocks and files that could
// not be removed must not get mixed up.
func (g *gen) discardUnderRemoveFaults(c *Case) {
	r := g.r
	c.Knobs.WriteBuffer = r.pick(512, 1024, 2048)
	g.wb = c.Knobs.WriteBuffer
	c.Knobs.DisableBlockCache = false
	if c.Knobs.BlockCache < 0 {
		c.Knobs.BlockCache = 0
	}
	c.Knobs.EvictRemoved = r.p(0.3)
	var ops []Op
	for i := r.rng(0, 6); i > 0; i-- {
		ops = append(ops, g.writeOp(0.2))
	}
	for round := r.rng(2, 5); round > 0; round-- {
		nk := r.rng(2, len(g.keys))
		body := func() []Op {
			var b []Op
			for _, k := range g.keys[:nk] {
				g.nextID++
				b = append(b, Op{K: "put", Key: B(k), Val: V{ID: g.nextID, Len: r.rng(150, 500)}})
			}
			for _, k := range g.keys[:nk] {
				b = append(b, Op{K: []string{"get", "has"}[r.intn(2)], Key: B(k), Via: "tx"})
			}
			return b
		}
		ops = append(ops, Op{K: "tx", Commit: false, Body: body()})
		ops = append(ops, Op{K: "tx", Commit: true, Body: body()})
		for _, k := range g.keys[:nk] {
			ops = append(ops, Op{K: "get", Key: B(k)})
		}
		if r.p(0.3) {
			ops = append(ops, Op{K: "compact"})
		}
	}
	ops = append(ops, Op{K: "reopen"})
	for _, k := range g.keys {
		ops = append(ops, Op{K: "get", Key: B(k)})
	}
	c.Clients = [][]Op{ops}
	c.Faults = nil
	for i := r.rng(1, 2); i > 0; i-- {
		c.Faults = append(c.Faults, &simdisk.Fault{Kind: "err", Op: simdisk.OpRemove, FT: int(storage.TypeTable), Nth: r.rng(1, 4), Count: r.rng(1, 4), Epoch: -1})
	}
}

// deepTombstones: a deep tree (tiny tables and level budgets) whose keys are
// then deleted, with failures of table-file operations while the deletion
// markers are compacted downward: a compaction that fails half-way and is
// retried must come to the same verdict about every marker as a fresh one.
func (g *gen) deepTombstones(c *Case) {
	r := g.r
	c.Knobs.WriteBuffer = r.pick(1024, 2048, 4096)
	g.wb = c.Knobs.WriteBuffer
	c.Knobs.TableSize = r.pick(512, 1024, 2048)
	c.Knobs.TotalSize = r.pick(1024, 4096)
	c.Knobs.TotalMult = 2
	c.Knobs.MaxManifest = 0
	var ops []Op
	put := func(k B, l int) {
		g.nextID++
		ops = append(ops, Op{K: "put", Key: k, Val: V{ID: g.nextID, Len: l}})
	}
	for i := r.rng(2, 4); i > 0; i-- {
		for _, k := range g.keys {
			put(B(k), r.rng(100, 400))
		}
		ops = append(ops, Op{K: "compact"})
	}
	ops = append(ops, Op{K: "reopen"}) // the faults below are counted from here (epoch 1)
	for _, k := range g.keys {
		if r.p(0.7) {
			ops = append(ops, Op{K: "del", Key: B(k)})
		}
	}
	for i := r.rng(3, 12); i > 0; i-- {
		put(append(append(B{}, g.key()...), '~', byte('a'+r.intn(6))), r.rng(200, 600))
	}
	if r.p(0.7) {
		ops = append(ops, Op{K: "compact"})
	}
	ops = append(ops, Op{K: "sleep", Ms: r.pick(1000, 31000)})
	for _, k := range g.keys {
		ops = append(ops, Op{K: "get", Key: B(k)})
	}
	if r.p(0.5) {
		ops = append(ops, Op{K: "compact"})
	}
	ops = append(ops, Op{K: "reopen"})
	for _, k := range g.keys {
		ops = append(ops, Op{K: []string{"get", "has"}[r.intn(2)], Key: B(k)})
	}
	ops = append(ops, g.iterOp("", 0, 40))
	c.Clients = [][]Op{ops}
	c.Faults = nil
	for i := r.rng(1, 3); i > 0; i-- {
		c.Faults = append(c.Faults, &simdisk.Fault{Kind: "err", Op: []string{simdisk.OpSync, simdisk.OpSync, simdisk.OpWrite, simdisk.OpClose, simdisk.OpCreate}[r.intn(5)], FT: int(storage.TypeTable), Nth: r.rng(1, 14), Count: r.rng(1, 2), Epoch: 1})
	}
}

// crashPlan places 1..3 crash points, biased toward moments of in-flight state.
func (g *gen) crashPlan(c *Case) {
	r := g.r
	n := r.rng(1, 3)
	if c.Knobs.MaxManifest == 0 && r.p(0.5) {
		c.Knobs.MaxManifest = int64(r.pick(1, 64, 512))
	}
	c.Knobs.NoSync = r.p(0.1)
	for i := 0; i < n; i++ {
		f := &simdisk.Fault{Kind: "crash", Epoch: i, Img: r.u64(), After: r.p(0.4)}
		switch x := r.intn(100); {
		case x < 30:
			// any storage event, roughly uniform over a typical epoch
			f.Nth = r.rng(1, 400)
		case x < 50:
			f.Op, f.FT, f.Nth = simdisk.OpSync, int(storage.TypeTable), r.rng(1, 12)
		case x < 65:
			f.Op, f.FT, f.Nth = simdisk.OpWrite, int(storage.TypeManifest), r.rng(1, 12)
		case x < 75:
			f.Op, f.FT, f.Nth = simdisk.OpSync, int(storage.TypeManifest), r.rng(1, 12)
		case x < 82:
			f.Op, f.Nth = simdisk.OpSetMeta, r.rng(1, 3)
		case x < 90:
			f.Op, f.FT, f.Nth = simdisk.OpRemove, int(storage.TypeJournal|storage.TypeTable), r.rng(1, 10)
		case x < 95:
			f.Op, f.FT, f.Nth = simdisk.OpCreate, int(storage.TypeJournal|storage.TypeTable|storage.TypeManifest), r.rng(1, 12)
		default:
			f.Op, f.FT, f.Nth = simdisk.OpWrite, int(storage.TypeJournal), r.rng(1, 60)
		}
		c.Faults = append(c.Faults, f)
	}
}

// faultPlan places error faults; every plan is finite so faults stop.
func (g *gen) faultPlan(c *Case, prop string) {
	r := g.r
	n := r.rng(1, 4)
	ops := []string{simdisk.OpCreate, simdisk.OpOpen, simdisk.OpRead, simdisk.OpWrite, simdisk.OpSync, simdisk.OpClose, simdisk.OpRemove, simdisk.OpRename, simdisk.OpSetMeta, simdisk.OpList}
	weights := []int{12, 6, 8, 20, 22, 4, 8, 2, 6, 2}
	tot := 0
	for _, w := range weights {
		tot += w
	}
	fts := []int{int(storage.TypeJournal), int(storage.TypeTable), int(storage.TypeManifest), 0}
	for i := 0; i < n; i++ {
		x := r.intn(tot)
		k := 0
		for x >= weights[k] {
			x -= weights[k]
			k++
		}
		f := &simdisk.Fault{Kind: "err", Op: ops[k], FT: fts[r.intn(4)], Epoch: -1}
		if f.Op == simdisk.OpWrite && r.p(0.4) {
			f.Kind = "short"
		}
		f.Nth = r.rng(1, 30)
		if r.p(0.3) {
			f.Nth = r.rng(1, 200)
		}
		switch r.intn(4) {
		case 0:
			f.Count = r.rng(2, 6)
		case 1:
			f.Count = r.rng(6, 40)
		default:
			f.Count = 1
		}
		c.Faults = append(c.Faults, f)
	}
	if r.p(0.3) {
		c.Faults = append(c.Faults, &simdisk.Fault{Kind: "stall", Op: simdisk.OpWrite, FT: int(storage.TypeTable), Nth: r.rng(1, 10), Count: r.rng(1, 5), Epoch: -1, StallMs: r.pick(5, 100, 2000)})
	}
	_ = fmt.Sprint
}
