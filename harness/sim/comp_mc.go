package sim

import (
	"bytes"
	"fmt"
	"os"
	"sort"
	"testing"
	"time"

	"github.com/syndtr/goleveldb/leveldb/cache"
	"github.com/syndtr/goleveldb/leveldb/comparer"
	"github.com/syndtr/goleveldb/leveldb/iterator"
	"github.com/syndtr/goleveldb/leveldb/memdb"
	"github.com/syndtr/goleveldb/leveldb/util"
	"verif/simrt"
)

func runComponent(t *testing.T, c *Case, out *RunOut, wantTrace bool) {
	switch c.Comp.Kind {
	case "journal":
		runJournal(c, out)
		out.Hash = strhashCase(c) ^ uint64(out.OpsDone)
		out.NonTrivial = len(c.Comp.Lens) >= 2
		return
	case "table":
		runTable(c, out)
		out.Hash = strhashCase(c) ^ uint64(out.OpsDone)
		out.NonTrivial = len(c.Comp.Pairs) >= 2
		return
	}
	cfg := simrt.Config{
		Seed: c.Seed, Strategy: c.Sched.Strategy, YieldP: c.Sched.YieldP, PCTDepth: c.Sched.PCTDepth,
		PCTHorizon: c.Sched.PCTHorizon, PoolDropP: c.Sched.PoolDropP, MaxSteps: c.MaxSteps, HangAfter: 600 * time.Second,
	}
	if wantTrace {
		cfg.KeepTrace = 60
	}
	viol := func(oracle, finger, detail string) {
		if len(out.Viol) < 6 {
			out.Viol = append(out.Viol, Violation{Oracle: oracle, Finger: finger, Detail: detail})
		}
	}
	var main func()
	switch c.Comp.Kind {
	case "memdb":
		main = func() { runMemdb(c, out, viol) }
	case "cache":
		main = func() { runCache(c, out, viol) }
	}
	res := simrt.Run(t, cfg, main)
	out.Steps, out.Decisions, out.Switches = res.Steps, res.Decisions, res.Switches
	out.SimTimeMs = res.SimTime.Milliseconds()
	out.Hash = res.TraceHash
	out.Pairs = res.SwitchPairs
	out.Goroutines = res.Goroutines
	out.StepLimit = res.StepLimit
	out.Leaked = res.Leaked
	out.Trace = res.LastTrace
	if res.Panic != nil {
		viol("panic", "panic:"+panicFrame(res.Panic.Stack), fmt.Sprintf("goroutine %s panicked: %s\n%s", res.Panic.G.Name, res.Panic.Value, trimStack(res.Panic.Stack)))
	}
	if res.Hang != nil {
		viol("hang", hangFinger(res.Hang), hangDetail(res.Hang))
	}
	out.NonTrivial = len(c.Comp.Prog) >= 2 && out.Probes["overlap"] > 0 || out.OpsDone >= 10
}

func strhashCase(c *Case) uint64 {
	h := uint64(1469598103934665603) ^ c.Seed
	cc := c.Comp
	for _, l := range cc.Lens {
		h = (h ^ uint64(l)) * 1099511628211
	}
	for _, p := range cc.Pairs {
		for _, b := range p.Key {
			h = (h ^ uint64(b)) * 1099511628211
		}
		h = (h ^ uint64(p.Val.Len)) * 1099511628211
	}
	h = (h ^ uint64(cc.BlockSize)<<8 ^ uint64(cc.Restart)) * 1099511628211
	return h
}

// ---------------------------------------------------------------- memdb

type mwop struct {
	call, ret int64
	op        *COp
}

func runMemdb(c *Case, out *RunOut, viol func(oracle, finger, detail string)) {
	cc := c.Comp
	db := memdb.New(comparer.DefaultComparer, cc.Cap)
	var tick int64
	var wlog []mwop // writer operation log
	active := 0
	enter := func() {
		if active > 0 {
			out.Probes["overlap"]++
		}
		active++
	}
	leave := func() {
		active--
		out.OpsDone++
		simrt.Progress()
	}
	// state of a key after the first p writer operations (with epochs: a
	// Reset starts from empty)
	stateAt := func(key []byte, p int) (bool, V) {
		found := false
		var v V
		for i := 0; i < p && i < len(wlog); i++ {
			o := wlog[i].op
			switch o.K {
			case "reset":
				found = false
			case "put":
				if bytes.Equal(o.Key, key) {
					found, v = true, o.Val
				}
			case "del":
				if bytes.Equal(o.Key, key) {
					found = false
				}
			}
		}
		return found, v
	}
	legal := func(key []byte, cl, rt int64, found bool, val []byte) bool {
		minp, maxp := 0, 0
		for _, w := range wlog {
			if w.ret != 0 && w.ret < cl {
				minp++
			}
			if w.call < rt {
				maxp++
			}
		}
		for p := minp; p <= maxp; p++ {
			f, v := stateAt(key, p)
			if f == found && (!found || bytes.Equal(v.Bytes(), val)) {
				return true
			}
		}
		return false
	}
	sequential := len(cc.Prog) == 1
	// Slices handed out by Get, Find and iterators are read by their holder
	// after the call has returned (no lock is held then): their bytes must
	// not change until the table is Reset, or a reader running concurrently
	// with that change sees a mixture that was never stored.
	type heldSlice struct {
		s, want []byte
		epoch   int
		what    string
	}
	resetEpoch := 0
	hold := func(list *[]heldSlice, s []byte, what string) {
		if len(s) == 0 {
			return
		}
		if len(*list) >= 12 {
			*list = (*list)[1:]
		}
		*list = append(*list, heldSlice{s: s, want: append([]byte(nil), s...), epoch: resetEpoch, what: what})
	}
	verify := func(list *[]heldSlice) {
		for _, h := range *list {
			if h.epoch == resetEpoch && !bytes.Equal(h.s, h.want) {
				viol("memdb", "memdb:value-unstable", fmt.Sprintf("the slice returned by %s changed under its holder from %s to %s without a Reset", h.what, descVal(true, h.want), descVal(true, h.s)))
				*list = nil
				return
			}
		}
	}
	var wg simrt.WaitGroup
	run := func(pi int, prog []COp) {
		defer wg.Done()
		var helds []heldSlice
		defer verify(&helds)
		iters := map[int]iterator.Iterator{}
		lastKey := map[int][]byte{}
		lastDir := map[int]int{}
		for i := range prog {
			if len(out.Viol) > 0 {
				return
			}
			op := &prog[i]
			verify(&helds)
			tick++
			cl := tick
			enter()
			switch op.K {
			case "put", "del", "reset":
				wlog = append(wlog, mwop{call: cl, op: op})
				wi := len(wlog) - 1
				var err error
				switch op.K {
				case "put":
					err = db.Put(op.Key, op.Val.Bytes())
				case "del":
					err = db.Delete(op.Key)
					if err == memdb.ErrNotFound {
						if f, _ := stateAt(op.Key, wi); f && sequential {
							viol("memdb", "memdb:delete-notfound", fmt.Sprintf("Delete(%q) of a stored key reported not-found", []byte(op.Key)))
						}
						err = nil
					}
				case "reset":
					resetEpoch++
					db.Reset()
					resetEpoch++
				}
				if err != nil {
					viol("memdb", "memdb:write-error", fmt.Sprintf("%s(%q) returned %v", op.K, []byte(op.Key), err))
				}
				tick++
				wlog[wi].ret = tick
			case "get", "contains", "find":
				var found bool
				var val, rkey []byte
				switch op.K {
				case "get":
					v, err := db.Get(op.Key)
					found, val = err == nil, v
					if err != nil && err != memdb.ErrNotFound {
						viol("memdb", "memdb:get-error", fmt.Sprintf("Get returned %v", err))
					}
				case "contains":
					found = db.Contains(op.Key)
				case "find":
					k, v, err := db.Find(op.Key)
					found, rkey, val = err == nil, k, v
					if found && bytes.Compare(rkey, op.Key) < 0 {
						viol("memdb", "memdb:find-order", fmt.Sprintf("Find(%q) returned smaller key %q", []byte(op.Key), rkey))
					}
				}
				tick++
				rt := tick
				hold(&helds, val, op.K)
				hold(&helds, rkey, op.K)
				switch op.K {
				case "get":
					if !legal(op.Key, cl, rt, found, val) {
						viol("memdb", "memdb:get-mismatch", fmt.Sprintf("Get(%q) returned %s which the key never held during the call", []byte(op.Key), descVal(found, val)))
					}
				case "contains":
					okk := false
					for _, f := range []bool{found} {
						// presence only
						minp, maxp := 0, 0
						for _, w := range wlog {
							if w.ret != 0 && w.ret < cl {
								minp++
							}
							if w.call < rt {
								maxp++
							}
						}
						for p := minp; p <= maxp; p++ {
							if ff, _ := stateAt(op.Key, p); ff == f {
								okk = true
							}
						}
					}
					if !okk {
						viol("memdb", "memdb:contains-mismatch", fmt.Sprintf("Contains(%q)=%v contradicts every state during the call", []byte(op.Key), found))
					}
				case "find":
					if found {
						if !legal(rkey, cl, rt, true, val) {
							viol("memdb", "memdb:find-mismatch", fmt.Sprintf("Find(%q) returned pair %q=%s that was never stored", []byte(op.Key), rkey, descVal(true, val)))
						}
						if sequential {
							// exact: no live key in [op.Key, rkey)
							for _, w := range wlog {
								if w.op.K == "put" && bytes.Compare(w.op.Key, op.Key) >= 0 && bytes.Compare(w.op.Key, rkey) < 0 {
									if f, _ := stateAt(w.op.Key, len(wlog)); f {
										viol("memdb", "memdb:find-skipped", fmt.Sprintf("Find(%q) returned %q but %q is stored and smaller", []byte(op.Key), rkey, []byte(w.op.Key)))
									}
								}
							}
						}
					} else if sequential {
						for _, w := range wlog {
							if w.op.K == "put" && bytes.Compare(w.op.Key, op.Key) >= 0 {
								if f, _ := stateAt(w.op.Key, len(wlog)); f {
									viol("memdb", "memdb:find-missed", fmt.Sprintf("Find(%q) reported not-found but %q is stored", []byte(op.Key), []byte(w.op.Key)))
								}
							}
						}
					}
				}
			case "len":
				n, sz := db.Len(), db.Size()
				if sequential {
					wn, ws := 0, 0
					seen := map[string]bool{}
					for _, w := range wlog {
						if w.op.K == "put" && !seen[string(w.op.Key)] {
							seen[string(w.op.Key)] = true
							if f, v := stateAt(w.op.Key, len(wlog)); f {
								wn++
								ws += len(w.op.Key) + v.Len
							}
						}
					}
					if n != wn || sz != ws {
						viol("memdb", "memdb:len-size", fmt.Sprintf("Len/Size = %d/%d, contents say %d/%d", n, sz, wn, ws))
					}
				}
			case "iter":
				if old := iters[op.Slot]; old != nil {
					old.Release()
				}
				var rg *util.Range
				if op.HasS || op.HasL {
					rg = &util.Range{}
					if op.HasS {
						rg.Start = append([]byte{}, op.Start...)
					}
					if op.HasL {
						rg.Limit = append([]byte{}, op.Limit...)
					}
				}
				it := db.NewIterator(rg)
				iters[op.Slot] = it
				lastKey[op.Slot], lastDir[op.Slot] = nil, 0
				if sequential {
					// exact cursor model on a frozen copy of the contents
					m := NewModel(bytes.Compare)
					var recs []Rec
					for _, w := range wlog {
						switch w.op.K {
						case "put":
							recs = append(recs, Rec{Key: w.op.Key, Val: w.op.Val})
						case "del":
							recs = append(recs, Rec{Del: true, Key: w.op.Key})
						case "reset":
							recs = nil
							m = NewModel(bytes.Compare)
						}
					}
					m.Append(recs, stYes, "memdb")
					cur := NewCursor(View{M: m, N: 1}, op.Start, op.Limit, op.HasS, op.HasL)
					for _, mv := range op.Moves {
						ok := moveIter(it, mv)
						var msg string
						if ok {
							msg = cur.Step(mv, true, it.Key(), it.Value())
						} else {
							msg = cur.Step(mv, false, nil, nil)
						}
						if msg != "" {
							viol("memdb", "memdb:iter-mismatch", msg)
							break
						}
					}
					it.Release()
					delete(iters, op.Slot)
				}
			case "iterstep":
				it := iters[op.Slot]
				if it == nil {
					break
				}
				for _, mv := range op.Moves {
					tick++
					c0 := tick
					ok := moveIter(it, mv)
					tick++
					r0 := tick
					if !ok {
						lastKey[op.Slot], lastDir[op.Slot] = nil, 0
						continue
					}
					k := append([]byte(nil), it.Key()...)
					v := it.Value()
					hold(&helds, it.Key(), "iterator Key")
					hold(&helds, v, "iterator Value")
					if op.HasS && bytes.Compare(k, op.Start) < 0 || op.HasL && bytes.Compare(k, op.Limit) >= 0 {
						viol("memdb", "memdb:iter-range", fmt.Sprintf("iterator yielded %q outside its range", k))
					}
					if !legal(k, c0, r0, true, v) {
						// the pair may also stem from any earlier state the
						// iterator position was taken in: accept any value ever stored
						ever := false
						for _, w := range wlog {
							if w.op.K == "put" && bytes.Equal(w.op.Key, k) && bytes.Equal(w.op.Val.Bytes(), v) {
								ever = true
							}
						}
						if !ever {
							viol("memdb", "memdb:iter-invented", fmt.Sprintf("iterator yielded pair %q=%s that was never stored", k, descVal(true, v)))
						}
					}
					dir := 0
					switch mv.K {
					case "next":
						dir = 1
					case "prev":
						dir = -1
					}
					if lk := lastKey[op.Slot]; lk != nil && dir != 0 {
						cmp := bytes.Compare(k, lk)
						if dir == 1 && cmp <= 0 || dir == -1 && cmp >= 0 {
							viol("memdb", "memdb:iter-order", fmt.Sprintf("%s moved from %q to %q", mv.K, lk, k))
						}
					}
					lastKey[op.Slot], lastDir[op.Slot] = k, dir
				}
			}
			leave()
		}
		var slots []int
		for s := range iters {
			slots = append(slots, s)
		}
		sort.Ints(slots)
		for _, s := range slots {
			iters[s].Release()
		}
	}
	for pi := range cc.Prog {
		pi := pi
		wg.Add(1)
		simrt.Go(fmt.Sprintf("client%d", pi), func() { run(pi, cc.Prog[pi]) })
	}
	wg.Wait()
}

func moveIter(it iterator.Iterator, mv Move) bool {
	switch mv.K {
	case "first":
		return it.First()
	case "last":
		return it.Last()
	case "next":
		return it.Next()
	case "prev":
		return it.Prev()
	case "seek":
		return it.Seek(mv.Key)
	}
	return false
}

func genMemdb(seed uint64, g *gen, c *Case, thorough bool) *Case {
	r := g.r
	cc := c.Comp
	cc.Kind = "memdb"
	c.Sched = g.sched()
	c.Sched.StallP = 0
	g.makeKeys(r.rng(2, 30))
	g.wb, g.bs = 4096, 256
	cc.Cap = r.pick(0, 64, 1024, 65536)
	conc := r.p(0.6)
	if conc && c.Sched.Strategy == 0 && c.Sched.YieldP < 0.01 {
		c.Sched.YieldP = []float64{0.01, 0.05, 0.2, 0.5}[r.intn(4)]
	}
	nw := r.rng(5, 150)
	var w []COp
	for i := 0; i < nw; i++ {
		switch x := r.intn(100); {
		case x < 60:
			v := g.val(600)
			w = append(w, COp{K: "put", Key: g.key(), Val: v})
		case x < 85:
			w = append(w, COp{K: "del", Key: g.anyKey()})
		case x < 88 && !conc:
			w = append(w, COp{K: "reset"})
		case !conc && x < 94:
			w = append(w, COp{K: "len"})
		case !conc:
			op := Op{}
			g.cmp = bytes.Compare
			if r.p(0.6) {
				g.rangeOf(&op)
			}
			w = append(w, COp{K: "iter", Start: op.Start, Limit: op.Limit, HasS: op.HasS, HasL: op.HasL, Moves: g.moves(r.rng(1, 40))})
		default:
			w = append(w, COp{K: []string{"get", "find", "contains"}[r.intn(3)], Key: g.anyKey()})
		}
	}
	cc.Prog = append(cc.Prog, w)
	if conc {
		for ri := r.rng(1, 4); ri > 0; ri-- {
			var p []COp
			live := map[int]bool{}
			for i := r.rng(5, 80); i > 0; i-- {
				switch x := r.intn(100); {
				case x < 45:
					p = append(p, COp{K: []string{"get", "find", "contains"}[r.intn(3)], Key: g.anyKey()})
				case x < 60:
					slot := r.intn(3)
					op := Op{}
					g.cmp = bytes.Compare
					if r.p(0.5) {
						g.rangeOf(&op)
					}
					p = append(p, COp{K: "iter", Slot: slot, Start: op.Start, Limit: op.Limit, HasS: op.HasS, HasL: op.HasL})
					live[slot] = true
				default:
					slot := r.intn(3)
					if !live[slot] {
						continue
					}
					var mv []Move
					if r.p(0.5) {
						mv = append(mv, Move{K: "first"})
						for j := r.rng(1, 30); j > 0; j-- {
							mv = append(mv, Move{K: "next"})
						}
					} else {
						mv = g.moves(r.rng(1, 25))
					}
					p = append(p, COp{K: "iterstep", Slot: slot, Moves: mv})
				}
			}
			// iterstep needs the range of its iterator for the range check
			rng := map[int]COp{}
			for i := range p {
				if p[i].K == "iter" {
					rng[p[i].Slot] = p[i]
				} else if p[i].K == "iterstep" {
					o := rng[p[i].Slot]
					p[i].Start, p[i].Limit, p[i].HasS, p[i].HasL = o.Start, o.Limit, o.HasS, o.HasL
				}
			}
			cc.Prog = append(cc.Prog, p)
		}
	}
	return c
}

// ---------------------------------------------------------------- cache

var dbgCache = os.Getenv("DEBUGCACHE") != ""

type cval struct {
	id        int
	ns, key   uint64
	size      int
	finalized int
	handles   int
}

type cacheMon struct {
	out      *RunOut
	viol     func(oracle, finger, detail string)
	live     map[[2]uint64]*cval
	nextID   int
	forced   bool
	closed   bool
	delCalls map[int]int
	delTags  []int
	delWhat  map[int]string
}

func (v *cval) Release() {
	v.finalized++
	if dbgCache {
		who := "?"
		if g := simrt.Cur(); g != nil {
			who = g.Name
		}
		fmt.Printf("   finalize v%d(%d,%d) by %s handles=%d\n", v.id, v.ns, v.key, who, v.handles)
	}
}

func runCache(c *Case, out *RunOut, viol func(oracle, finger, detail string)) {
	cc := c.Comp
	lru := cache.NewLRU(cc.Cap)
	ch := cache.NewCache(lru)
	mon := &cacheMon{out: out, viol: viol, live: map[[2]uint64]*cval{}, delCalls: map[int]int{}, delWhat: map[int]string{}}
	var all []*cval
	active := 0
	var wg simrt.WaitGroup
	run := func(pi int, prog []COp) {
		defer wg.Done()
		held := map[int]*cache.Handle{}
		heldV := map[int]*cval{}
		release := func(slot int) {
			if h := held[slot]; h != nil {
				v := heldV[slot]
				if v.finalized > 0 && !mon.forced {
					viol("cache", "cache:dead-value-held", fmt.Sprintf("value %d of (%d,%d) was finalised while a handle was outstanding", v.id, v.ns, v.key))
				}
				v.handles--
				h.Release()
				delete(held, slot)
				delete(heldV, slot)
			}
		}
		doGet := func(op *COp) {
			release(op.Slot)
			var created *cval
			var set func() (int, cache.Value)
			if op.K == "get" {
				set = func() (int, cache.Value) {
					k := [2]uint64{op.NS, op.N}
					if old := mon.live[k]; old != nil && old.finalized == 0 {
						viol("cache", "cache:two-residencies", fmt.Sprintf("constructor ran for (%d,%d) while value %d is still live", op.NS, op.N, old.id))
					}
					mon.nextID++
					created = &cval{id: mon.nextID, ns: op.NS, key: op.N, size: op.Size}
					mon.live[k] = created
					all = append(all, created)
					out.Probes["cache-construct"]++
					if dbgCache {
						fmt.Printf("   construct v%d(%d,%d) by g%d\n", created.id, op.NS, op.N, pi)
					}
					return op.Size, created
				}
			}
			h := ch.Get(op.NS, op.N, set)
			if h != nil {
				v, ok := h.Value().(*cval)
				if !ok || v == nil {
					// a forced Close finalises values under outstanding handles
					if !mon.forced {
						viol("cache", "cache:nil-value", fmt.Sprintf("Get(%d,%d) returned a handle without value", op.NS, op.N))
					}
					h.Release()
					return
				}
				if v.ns != op.NS || v.key != op.N {
					viol("cache", "cache:wrong-value", fmt.Sprintf("Get(%d,%d) returned the value of (%d,%d)", op.NS, op.N, v.ns, v.key))
				}
				if v.finalized > 0 {
					viol("cache", "cache:dead-value", fmt.Sprintf("Get(%d,%d) handed out value %d which is already finalised", op.NS, op.N, v.id))
				}
				if cur := mon.live[[2]uint64{op.NS, op.N}]; cur != v {
					viol("cache", "cache:stale-value", fmt.Sprintf("Get(%d,%d) returned value %d but the live value is another one", op.NS, op.N, v.id))
				}
				v.handles++
				if dbgCache {
					fmt.Printf("   g%d got handle on v%d(%d,%d) finalized=%d\n", pi, v.id, v.ns, v.key, v.finalized)
				}
				held[op.Slot] = h
				heldV[op.Slot] = v
				out.Probes["cache-hit-or-set"]++
			} else if mon.closed == false && op.K == "get" && created != nil {
				// constructor ran but no handle: only legal when closed concurrently
				out.Probes["cache-get-nil-after-set"]++
			}
		}
		for i := range prog {
			if len(out.Viol) > 0 {
				break
			}
			op := &prog[i]
			if active > 0 {
				out.Probes["overlap"]++
			}
			active++
			if dbgCache {
				fmt.Printf("g%d start %s ns=%d n=%d slot=%d force=%v\n", pi, op.K, op.NS, op.N, op.Slot, op.Force)
			}
			switch op.K {
			case "get", "peek":
				doGet(op)
			case "fill":
				// enough distinct entries to make the hash table grow, so that
				// what follows meets buckets that are not migrated yet
				for j := 0; j < op.Size && len(out.Viol) == 0; j++ {
					doGet(&COp{K: "get", NS: op.NS, N: op.N + uint64(j), Size: 1, Slot: op.Slot})
					release(op.Slot)
				}
				out.Probes["cache-fill"]++
			case "release":
				release(op.Slot)
			case "delete":
				k := [2]uint64{op.NS, op.N}
				target := mon.live[k]
				id := -1
				if target != nil {
					id = target.id
				}
				mon.nextID++
				tag := mon.nextID
				mon.delTags = append(mon.delTags, tag)
				mon.delWhat[tag] = fmt.Sprintf("(%d,%d)", op.NS, op.N)
				ch.Delete(op.NS, op.N, func() {
					mon.delCalls[tag]++
					if mon.delCalls[tag] > 1 {
						viol("cache", "cache:delfunc-twice", fmt.Sprintf("deletion callback for (%d,%d) ran twice", op.NS, op.N))
					}
					if target != nil && target.handles > 0 && target.finalized == 0 && mon.live[k] == target && !mon.forced {
						viol("cache", "cache:delfunc-early", fmt.Sprintf("deletion callback for (%d,%d) ran while %d handle(s) to value %d are outstanding", op.NS, op.N, target.handles, id))
					}
				})
				out.Probes["cache-delete"]++
			case "evict":
				ch.Evict(op.NS, op.N)
			case "evictns":
				ch.EvictNS(op.NS)
			case "evictall":
				ch.EvictAll()
			case "setcap":
				ch.SetCapacity(op.Size)
				out.Probes["cache-setcap"]++
			case "close":
				if op.Force {
					mon.forced = true
				}
				mon.closed = true
				ch.Close(op.Force)
				out.Probes["cache-close"]++
			case "yield":
				simrt.Yield("harness.yield")
			}
			active--
			out.OpsDone++
			simrt.Progress()
			if dbgCache {
				st := ""
				for _, v := range all {
					st += fmt.Sprintf(" v%d(%d,%d)h%df%d", v.id, v.ns, v.key, v.handles, v.finalized)
				}
				fmt.Printf("g%d end   %s:%s\n", pi, op.K, st)
			}
			// finalised values must have no outstanding handle (unless force-closed)
			if !mon.forced {
				for _, v := range all {
					if v.finalized > 0 && v.handles > 0 {
						viol("cache", "cache:finalized-with-handles", fmt.Sprintf("value %d of (%d,%d) finalised with %d handle(s) outstanding", v.id, v.ns, v.key, v.handles))
						break
					}
				}
			}
		}
		var slots []int
		for s := range held {
			slots = append(slots, s)
		}
		sort.Ints(slots)
		for _, s := range slots {
			release(s)
		}
	}
	for pi := range cc.Prog {
		pi := pi
		wg.Add(1)
		simrt.Go(fmt.Sprintf("client%d", pi), func() { run(pi, cc.Prog[pi]) })
	}
	wg.Wait()
	// let table resizing goroutines finish
	simrt.Quiesce()
	if len(out.Viol) > 0 {
		return
	}
	for _, v := range all {
		if v.finalized > 1 {
			viol("cache", "cache:finalized-twice", fmt.Sprintf("value %d of (%d,%d) was finalised %d times", v.id, v.ns, v.key, v.finalized))
			return
		}
	}
	if mon.closed {
		// closed, and every handle has been released since
		for _, v := range all {
			if v.finalized != 1 {
				viol("cache", "cache:not-finalized", fmt.Sprintf("value %d of (%d,%d) finalised %d times after Close with all handles released", v.id, v.ns, v.key, v.finalized))
				return
			}
		}
	}
	if !mon.closed {
		// with no handle outstanding every deletion callback has run, once
		for _, tag := range mon.delTags {
			if mon.delCalls[tag] != 1 {
				viol("cache", "cache:delfunc-never", fmt.Sprintf("deletion callback for %s ran %d times although every handle has been released", mon.delWhat[tag], mon.delCalls[tag]))
				return
			}
		}
		// everything is released: what is retained is retained by the policy
		if ch.Size() > ch.Capacity() {
			viol("cache", "cache:over-capacity", fmt.Sprintf("with no handle outstanding the cache retains %d bytes, capacity is %d", ch.Size(), ch.Capacity()))
		}
		retained := 0
		for _, v := range all {
			if v.finalized == 0 {
				retained += v.size
			}
		}
		if retained > ch.Capacity() {
			viol("cache", "cache:leak", fmt.Sprintf("values worth %d bytes were never finalised although no handle is outstanding (capacity %d)", retained, ch.Capacity()))
		}
		ch.Close(false)
		for _, v := range all {
			if v.finalized != 1 {
				viol("cache", "cache:not-finalized", fmt.Sprintf("value %d of (%d,%d) finalised %d times after Close with all handles released", v.id, v.ns, v.key, v.finalized))
				return
			}
		}
	}
}

func genCache(seed uint64, g *gen, c *Case, thorough bool) *Case {
	r := g.r
	cc := c.Comp
	cc.Kind = "cache"
	c.Sched = g.sched()
	c.Sched.StallP = 0
	if c.Sched.Strategy == 0 && c.Sched.YieldP < 0.01 {
		c.Sched.YieldP = []float64{0.01, 0.05, 0.2, 0.5}[r.intn(4)]
	}
	cc.Cap = r.pick(0, 10, 50, 200, 5000)
	nns := r.rng(1, 3)
	nkeys := r.pick(2, 4, 8, 40, 300)
	ng := r.rng(1, 6)
	closer := -1
	if r.p(0.25) {
		closer = r.intn(ng)
	}
	for gi := 0; gi < ng; gi++ {
		var p []COp
		for i := r.rng(5, 120); i > 0; i-- {
			ns, n := uint64(r.intn(nns)), uint64(r.intn(nkeys))
			switch x := r.intn(100); {
			case x < 45:
				p = append(p, COp{K: "get", NS: ns, N: n, Size: r.pick(1, 1, 5, 20, 100), Slot: r.intn(4)})
			case x < 52:
				p = append(p, COp{K: "peek", NS: ns, N: n, Slot: r.intn(4)})
			case x < 75:
				p = append(p, COp{K: "release", Slot: r.intn(4)})
			case x < 83:
				p = append(p, COp{K: "delete", NS: ns, N: n})
			case x < 89:
				p = append(p, COp{K: "evict", NS: ns, N: n})
			case x < 92:
				p = append(p, COp{K: "evictns", NS: ns})
			case x < 94:
				p = append(p, COp{K: "evictall"})
			case x < 97:
				p = append(p, COp{K: "setcap", Size: r.pick(0, 5, 50, 500)})
			default:
				p = append(p, COp{K: "yield"})
			}
		}
		if gi == closer {
			at := r.intn(len(p) + 1)
			p = append(p[:at:at], COp{K: "close", Force: r.p(0.5)})
		}
		if gi == 0 && r.p(0.15) {
			// grow the hash table (growth starts at 512 nodes and doubles),
			// and let Close / EvictAll / SetCapacity follow while buckets
			// are still being migrated
			fill := COp{K: "fill", NS: uint64(r.intn(nns)), N: 1000, Size: r.pick(520, 600, 1100, 2200), Slot: r.intn(4)}
			at := r.intn(len(p) + 1)
			var next []COp
			switch r.intn(4) {
			case 0:
				next = []COp{{K: "evictall"}}
			case 1:
				next = []COp{{K: "setcap", Size: 0}}
			case 2:
				if closer < 0 {
					closer = 0
					p = append(p[:at:at], fill, COp{K: "close", Force: r.p(0.5)})
					at = -1
				}
			}
			if at >= 0 {
				p = append(p[:at:at], append(append([]COp{fill}, next...), p[at:]...)...)
			}
			if cc.Cap < 5000 && r.p(0.7) {
				cc.Cap = 5000
			}
		}
		cc.Prog = append(cc.Prog, p)
	}
	return c
}
