package sim

import (
	"bytes"
	"fmt"
	"sort"
)

// Reference model M-map (DESIGN.md §3): the ordered list of issued batches,
// each definitely applied, definitely not applied, or indeterminate (failed,
// in flight or unsynced at a crash). Reads narrow the indeterminate flags;
// a read that no consistent assignment explains is a violation.

const (
	stYes   int8 = 1
	stNo    int8 = 0
	stMaybe int8 = 2
)

type mbatch struct {
	recs []Rec
	st   int8
	tag  string
}

type ref struct{ b, r int }

// Model is the reference ordered map.
type Model struct {
	cmp     func(a, b []byte) int
	batches []*mbatch
	byKey   map[string][]ref
	keys    [][]byte // sorted universe
}

// NewModel creates an empty model ordered by cmp.
func NewModel(cmp func(a, b []byte) int) *Model {
	return &Model{cmp: cmp, byKey: map[string][]ref{}}
}

func (m *Model) addKey(k []byte) {
	i := sort.Search(len(m.keys), func(i int) bool { return m.cmp(m.keys[i], k) >= 0 })
	if i < len(m.keys) && bytes.Equal(m.keys[i], k) {
		return
	}
	m.keys = append(m.keys, nil)
	copy(m.keys[i+1:], m.keys[i:])
	m.keys[i] = append([]byte(nil), k...)
}

// Append adds a batch and returns its index.
func (m *Model) Append(recs []Rec, st int8, tag string) int {
	i := len(m.batches)
	m.batches = append(m.batches, &mbatch{recs: recs, st: st, tag: tag})
	for j, r := range recs {
		ks := string(r.Key)
		if _, ok := m.byKey[ks]; !ok {
			m.addKey(r.Key)
		}
		m.byKey[ks] = append(m.byKey[ks], ref{i, j})
	}
	return i
}

// Len is the number of batches issued so far.
func (m *Model) Len() int { return len(m.batches) }

// SetStatus changes a batch's status.
func (m *Model) SetStatus(i int, st int8) { m.batches[i].st = st }

// Status returns a batch's status.
func (m *Model) Status(i int) int8 { return m.batches[i].st }

// Demote turns every definite-yes batch in [from, to) that is not in keep
// into an indeterminate one (used at a crash for unsynced writes).
func (m *Model) Demote(from, to int, keep map[int]bool) {
	for i := from; i < to && i < len(m.batches); i++ {
		if m.batches[i].st == stYes && !keep[i] {
			m.batches[i].st = stMaybe
		}
	}
}

// cand is one possible explanation of a read.
type cand struct {
	b   int // batch index, -1 = never written, -2-i = overlay record i
	del bool
	val V
}

// View is a read view: the first N batches plus an optional transaction overlay.
type View struct {
	M       *Model
	N       int
	Overlay []Rec
}

// chain lists what a read of key may legally return, newest first.
func (v View) chain(key []byte) []cand {
	var out []cand
	for i := len(v.Overlay) - 1; i >= 0; i-- {
		r := v.Overlay[i]
		if bytes.Equal(r.Key, key) {
			return append(out, cand{b: -2 - i, del: r.Del, val: r.Val})
		}
	}
	refs := v.M.byKey[string(key)]
	last := -1
	for i := len(refs) - 1; i >= 0; i-- {
		rf := refs[i]
		if rf.b >= v.N || rf.b == last {
			continue // outside the view, or an earlier record of the same batch
		}
		last = rf.b
		b := v.M.batches[rf.b]
		if b.st == stNo {
			continue
		}
		r := b.recs[rf.r]
		out = append(out, cand{b: rf.b, del: r.Del, val: r.Val})
		if b.st == stYes {
			return out
		}
	}
	return append(out, cand{b: -1, del: true})
}

func (c cand) matches(found bool, val []byte) bool {
	if !found {
		return c.del
	}
	return !c.del && bytes.Equal(c.val.Bytes(), val)
}

func (c cand) String() string {
	if c.b == -1 {
		return "never-written"
	}
	w := fmt.Sprintf("batch#%d", c.b)
	if c.b < -1 {
		w = fmt.Sprintf("tx-rec#%d", -2-c.b)
	}
	if c.del {
		return w + ":deleted"
	}
	return fmt.Sprintf("%s:v%08x/%d", w, c.val.ID, c.val.Len)
}

func descVal(found bool, val []byte) string {
	if !found {
		return "not-found"
	}
	if len(val) > 24 {
		return fmt.Sprintf("%q...(%d bytes)", val[:24], len(val))
	}
	return fmt.Sprintf("%q", val)
}

// Observe checks a read against the view and narrows indeterminate batches.
// It returns a non-empty explanation when no legal explanation exists.
func (v View) Observe(key []byte, found bool, val []byte) string {
	ch := v.chain(key)
	first := -1
	n := 0
	for i, c := range ch {
		if c.matches(found, val) {
			if first < 0 {
				first = i
			}
			n++
		}
	}
	if first < 0 {
		return fmt.Sprintf("key %q: got %s, legal: %v", key, descVal(found, val), ch)
	}
	// every candidate newer than the newest matching one was not applied
	for _, c := range ch[:first] {
		if c.b >= 0 && v.M.batches[c.b].st == stMaybe {
			v.M.batches[c.b].st = stNo
		}
	}
	if n == 1 {
		if c := ch[first]; c.b >= 0 && v.M.batches[c.b].st == stMaybe {
			v.M.batches[c.b].st = stYes
		}
	}
	return ""
}

// MayBeAbsent / MayBePresent report what the view allows for key.
func (v View) MayBeAbsent(key []byte) bool {
	for _, c := range v.chain(key) {
		if c.del {
			return true
		}
	}
	return false
}

// Keys returns the sorted keys the view can possibly contain within [start, limit).
func (v View) Keys(start, limit []byte, hasS, hasL bool) [][]byte {
	cmp := v.M.cmp
	var out [][]byte
	seen := map[string]bool{}
	add := func(k []byte) {
		if hasS && cmp(k, start) < 0 {
			return
		}
		if hasL && cmp(k, limit) >= 0 {
			return
		}
		if seen[string(k)] {
			return
		}
		seen[string(k)] = true
		out = append(out, k)
	}
	for _, k := range v.M.keys {
		refs := v.M.byKey[string(k)]
		if len(refs) > 0 && refs[0].b < v.N {
			add(k)
		}
	}
	for _, r := range v.Overlay {
		add(r.Key)
	}
	sort.Slice(out, func(i, j int) bool { return cmp(out[i], out[j]) < 0 })
	return out
}

// Cursor is the reference iterator M-cursor over a view and a range.
type Cursor struct {
	v    View
	keys [][]byte
	pos  int // -1 before first, len(keys) after last
}

// NewCursor positions a reference cursor before the first element.
func NewCursor(v View, start, limit []byte, hasS, hasL bool) *Cursor {
	ov := append([]Rec(nil), v.Overlay...)
	v.Overlay = ov
	return &Cursor{v: v, keys: v.Keys(start, limit, hasS, hasL), pos: -1}
}

func (c *Cursor) find(k []byte) int {
	i := sort.Search(len(c.keys), func(i int) bool { return c.v.M.cmp(c.keys[i], k) >= 0 })
	if i < len(c.keys) && bytes.Equal(c.keys[i], k) {
		return i
	}
	return -1
}

// Step applies one movement and checks what the real iterator reported.
func (c *Cursor) Step(mv Move, valid bool, key, val []byte) string {
	n := len(c.keys)
	forward := true
	lo := 0 // forward: first candidate index; backward: last candidate index
	switch mv.K {
	case "first":
		lo = 0
	case "seek":
		lo = sort.Search(n, func(i int) bool { return c.v.M.cmp(c.keys[i], mv.Key) >= 0 })
	case "next":
		if c.pos >= n {
			if valid {
				return fmt.Sprintf("Next after the end returned valid key %q", key)
			}
			return ""
		}
		lo = c.pos + 1
	case "last":
		forward = false
		lo = n - 1
	case "prev":
		forward = false
		if c.pos < 0 {
			if valid {
				return fmt.Sprintf("Prev before the start returned valid key %q", key)
			}
			return ""
		}
		lo = c.pos - 1
	default:
		return "unknown move " + mv.K
	}
	if !valid {
		// everything in the scanned direction must be possibly absent
		if forward {
			for i := lo; i < n; i++ {
				if msg := c.v.Observe(c.keys[i], false, nil); msg != "" {
					return fmt.Sprintf("%s(%q) reported exhausted but a live key was skipped: %s", mv.K, mv.Key, msg)
				}
			}
			c.pos = n
		} else {
			for i := lo; i >= 0; i-- {
				if msg := c.v.Observe(c.keys[i], false, nil); msg != "" {
					return fmt.Sprintf("%s reported exhausted but a live key was skipped: %s", mv.K, msg)
				}
			}
			c.pos = -1
		}
		return ""
	}
	j := c.find(key)
	if j < 0 {
		return fmt.Sprintf("%s(%q) returned key %q that is not in the view/range", mv.K, mv.Key, key)
	}
	if forward {
		if j < lo {
			return fmt.Sprintf("%s(%q) moved to %q which is before the expected position", mv.K, mv.Key, key)
		}
		for i := lo; i < j; i++ {
			if msg := c.v.Observe(c.keys[i], false, nil); msg != "" {
				return fmt.Sprintf("%s(%q) landed on %q skipping a live key: %s", mv.K, mv.Key, key, msg)
			}
		}
	} else {
		if j > lo {
			return fmt.Sprintf("%s moved to %q which is after the expected position", mv.K, key)
		}
		for i := lo; i > j; i-- {
			if msg := c.v.Observe(c.keys[i], false, nil); msg != "" {
				return fmt.Sprintf("%s landed on %q skipping a live key: %s", mv.K, key, msg)
			}
		}
	}
	if msg := c.v.Observe(key, true, val); msg != "" {
		return fmt.Sprintf("%s(%q): wrong pair under cursor: %s", mv.K, mv.Key, msg)
	}
	c.pos = j
	return ""
}
