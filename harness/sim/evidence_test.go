package sim

import (
	"encoding/json"
	"fmt"
	"os"
	"path/filepath"
	"time"
)

type propMeta struct {
	level string
	rule  string
}

var propInfo = map[string]propMeta{
	"C01": {"exploration", "one case = seeded (knob vector, comparer, key set, single-client program of put/delete/batch/get/has/iterator/transaction/CompactRange/close+reopen, scheduler strategy); every Get/Has and every post-reopen full scan is compared with the ordered-map model. Programs also switch the DB to read-only in the middle of a history (every write entry point must answer ErrReadOnly) and reopen, and every value returned by a Get is kept and must not change while later operations run. A reopen that changes the filter policy lists the previous one in AltFilters (60%); values include the empty value (4%). Non-trivial: >=3 operations completed and at least one table was written (data left the write buffer). Distinct: distinct event-log hash (storage trace + scheduling decisions)."},
	"C02": {"exploration", "as C01 but iterator-heavy: iterators on DB, snapshots and transactions with nil/non-nil range bounds and random movement scripts (reversals, stepping off an end and back); after every movement the real iterator must equal the reference cursor. Non-trivial: a table was written and >=3 ops completed. Distinct by event-log hash."},
	"C03": {"exploration", "programs with up to 8 live snapshots and up to 4 long-lived iterators read in seeded order after later writes, deletes, flushes, compactions, fake sleeps >5 min; every read through a snapshot/iterator must equal the model prefix frozen at its creation. Programs include transactions, whose iterators may outlive Commit/Discard and must stay what they were. Non-trivial: a table was written and >=3 ops. Distinct by event-log hash."},
	"C04": {"fault_enumeration", "programs mixing sync/non-sync writes, batches, transactions, CompactRange with 1..3 crash points per run placed at the k-th storage operation of a chosen kind/file type (before or after its effect, or inside a write), each with a seeded durable image per file (unsynced tail lost/kept/cut/cut+zero/cut+garbage); after every crash the DB must reopen, a full scan must equal apply(T) for a subset T of issued batches containing every sync-acknowledged batch and committed transaction, then the program continues under all oracles. 20% of the cases are concurrent: 2..6 writers on disjoint keys (sync/non-sync mixes, merged groups), one crash, reopen: every Sync-acknowledged write survives and each client's surviving writes form a prefix-closed, batch-atomic subset. 6% of the cases use keys of several KiB (manifest and journal records that span 32 KiB blocks) with crash points biased to manifest writes. Thorough additionally enumerates every storage event index of sampled programs as the crash point. Non-trivial: a crash fired and a flush or table write had happened. Distinct by event-log hash."},
	"C05": {"exploration", "2..5 concurrent clients issuing multi-key batches, puts, deletes, gets, snapshot reads and iterator scans over <=8 keys while flush/compaction goroutines run under the seeded scheduler; the recorded history (invoke/return stamped with the scheduler's global step counter) is checked for linearizability against a sequential map with porcupine, plus a cross-key atomicity pre-check. 40% of the transactions create an iterator half-way through a body that outgrows the write buffer (it must keep showing the transaction's earlier writes); every snapshot stays open over the client's next operation and is read a second time (snap-unstable). Non-trivial: at least two client operations overlapped. Distinct by event-log hash."},
	"C06": {"exploration", "write-heavy programs over all comparers and tiny size knobs; on EVERY version edit persisted to the manifest (decoded at the storage seam by an independent decoder) the live table set is checked: files exist with recorded size, entries strictly increasing, recorded bounds equal first/last entry, levels>=1 sorted and disjoint in user keys, shallower entries newer than deeper ones per user key. 12% of the cases lose the manifest after a settled shutdown, run Recover (every table then sits in level 0 in file-number order) and continue with a write-heavy program, the same conditions checked on every edit. Non-trivial: a table was written. Distinct by event-log hash."},
	"C07": {"exploration", "programs with long-lived iterators/snapshots, discarded transactions, sleeps beyond the 5 min reference-cache expiry, reopen; oracles: no Remove of a table live in the current version, no read of an already removed table, iterators stay correct, and at scheduler-level quiescence (all DB goroutines blocked) storage holds exactly live tables + live journal + live manifest. Variants: transaction iterators that outlive Commit/Discard; more than 256 version changes behind a pinned iterator (tiny write buffer, 280-420 flushes); failed flushes/compactions (faults on table files only) followed by heal + settle; K rounds of overwrite-everything + full compaction with the table bytes after round K bounded by twice those after round 1. The fault variant also fails table opens/reads and (40%) manifest writes/syncs, then heals, writes, compacts and only then settles; programs call Stats/GetProperty/SizeOf with bounds inside tables. 5%: the program ends by laying the image out in a real directory (live tables partly under the legacy .sst name), opening it read-write through file storage, rewriting every key, compacting and settling: the directory then holds no table the manifest does not list, and the DB reopens. Non-trivial: a table was written. Distinct by event-log hash."},
	"C08": {"fault_enumeration", "programs under 1..4 injected storage failures (create/open/read/write/short write/sync/close/remove/rename/setmeta/list x journal/table/manifest x position x window length) followed by continued use and close+reopen; failed writes are indeterminate in the model, acknowledged writes must stay visible, no read may return a value no consistent assignment explains. 25% of the cases are concurrent writers on disjoint keys under the fault plan incl. Close racing a retried transaction commit; 15% of the fault cases are bit rot at rest (bytes inside table blocks altered between close and reopen: reads fail or return original data). 15% of the fault cases build a deep tree, delete most keys and inject table-operation failures while the deletion markers are compacted downward (failed and retried compactions). 10% of the fault cases discard transactions whose tables were read (cached blocks) while removing table files fails. Thorough additionally enumerates every storage event index of sampled programs as the position of a single failure. A control run without faults attributes a mismatch to the faults. Non-trivial: at least one fault fired. Distinct by event-log hash."},
	"C09": {"exploration", "sequential and concurrent programs with injected failures on paths holding the write lock / commit lock / waiting for compaction, and Close at a seeded point; after the (finite) fault plan is exhausted every call must return within 600 s of simulated time; a hang reports the blocked call and site. Programs include SetReadOnly in the middle of a history followed by every write entry point with every Sync/NoWriteMerge combination (persistent-error paths). 12%: Close racing a transaction commit retried under manifest faults; 10% of sequential cases: bit rot at rest, then writes and compactions (once a compaction meets the damage every call must fail at once); 15% of concurrent cases: one client calls SetReadOnly among the writers. Thorough additionally enumerates every storage event index of sampled programs as the position of a single failure. Non-trivial: a fault fired. Distinct by event-log hash."},
	"C10": {"exploration", "2..6 concurrent writers (merge on/off, sizes straddling the merge limit, oversized batches) plus Close/transaction/CompactRange competing for the write lock; oracles from the journal bytes at the storage seam (each acknowledged write in exactly one record, disjoint increasing sequence ranges), from the API (every writer returns exactly once), porcupine linearizability with merged records atomic, and bounded liveness. Further oracles: at acknowledgement every value of the write is in a journal record; at a Sync acknowledgement those bytes are synced; the caller's batch is byte-identical after Write (no merged records left in it). 15%: one client calls SetReadOnly among the writers, half of the time while a flush is failing and being retried. 12%: journal write/sync failures among the writers. Non-trivial: two writers overlapped. Distinct by event-log hash."},
	"C11": {"exploration", "transaction-heavy programs: bodies of any size (several internal flushes), reads through the transaction checked against model-at-open + own writes, commit/discard, reopen, quiescent file-residue check; also under crash and fault plans. 15% of the cases: an explicit transaction whose commit hits failing manifest syncs and is retried while another client closes the DB, then reopen (all or nothing, Open succeeds). Thorough additionally enumerates every storage event index of sampled programs as a crash point or single failure. 12%: plain concurrent programs (transactions, snapshot takers re-reading their snapshots later, readers, writers). Non-trivial: a table was written. Distinct by event-log hash."},
	"C12": {"fault_enumeration", "journal writer over simulated file with seeded record lengths (0..several blocks, block-end remainders 0..7) and flush patterns; reader (strict and tolerant) over intact bytes, every truncation offset (small journals: all; large: seeded sample) and byte damage; oracle: intact = exact sequence; damaged = never panics, tolerant yields original records in order minus those touching a damaged block, strict stops with an error. 40%: the Reader first reads the intact stream and is Reset onto the stream under test (as recovery does); 30%: the Writer is Reset onto fresh streams at seeded points with records still buffered, and every earlier stream must read back exactly. Non-trivial: >=2 records. Distinct by input hash."},
	"C13": {"fault_enumeration", "table writer -> simulated file -> table reader with seeded sorted pair sets and layout knobs; intact: exact Get/Find/iteration and non-decreasing offsets; then single-byte alterations inside checksummed blocks (all bytes for small tables, seeded for large): every result is an original pair or an error. Find/FindKey through the filter must return every stored key. Damaged tables are also read through the filter. Non-trivial: >=2 entries. Distinct by input hash."},
	"C14": {"exploration", "memdb instrumented at statement granularity; one writer and 1..4 readers/iterators as simulated goroutines under the seeded scheduler; sequential runs compared with the ordered-map model incl. Len/Size; concurrent runs: no panic, iterator keys strictly increasing, every pair returned was stored, reads linearize against the writer's order. Slices handed out by Get/Find/iterators are kept by the readers and must stay byte-identical until Reset. Non-trivial: >=2 goroutines overlapped or >=10 ops. Distinct by event-log hash."},
	"C16": {"exploration", "programs replayed with the bloom filter as a knob (bits 1..64, base 4..14, changed across reopens with/without AltFilters); results are compared with the model and, on mismatch, with a control run without filters so that only filter-caused differences are reported. Programs take snapshots (reads that select older versions); 10% lose the manifest, damage table blocks and run Recover under a filter policy. 8%: block checksums off for data blocks (Strict without StrictBlockChecksum) and filter blocks altered at rest: every stored key must still be found. Non-trivial: a table was written. Distinct by event-log hash."},
	"C17": {"exploration", "cache (hash map + LRU) instrumented at statement granularity; 2..6 simulated goroutines doing Get/Release/Delete/Evict/EvictNS/EvictAll/SetCapacity/Close over a small key space incl. table growth/shrink; oracles: one live value per key, constructor once per residency, finaliser exactly once and only after all handles released, deletion callbacks exactly once, retained charge <= capacity at quiescence, no hang. A 'fill' operation grows the hash table (520-2200 nodes) right before Close/EvictAll/SetCapacity(0), so that these meet buckets that are still being migrated; after Close with every handle released each value is finalised exactly once. Non-trivial: >=2 goroutines. Distinct by event-log hash."},
	"C18": {"exploration", "lifecycle programs after arbitrary histories: second Open on an owned storage, read-only open (no mutating storage call at all, yet all data readable), SetReadOnly, every public method after Close (closed error, no storage call), double Close, released snapshots/iterators, calls racing Close. Open guards: read-only / ErrorIfMissing Open of an empty storage fails and creates nothing, ErrorIfExist on an existing DB fails and changes nothing. After SetReadOnly (40% of those cases while a flush is failing and being retried under table-file faults) every write entry point with every Sync/NoWriteMerge combination, OpenTransaction and CompactRange answer ErrReadOnly. One case in 7 lays the settled image out in a real directory as file storage does, adds crash leftovers (pending CURRENT.<n>, CURRENT.bak, damaged/missing CURRENT, stray files) and requires a read-only OpenFile + Open to serve all data and leave every directory entry byte-identical. Reads racing Close (Get, Has, Snapshot.Get/Has) must find keys that were present all along or return the closed error. Non-trivial: data existed in both journal and tables or a race occurred. Distinct by event-log hash."},
	"C19": {"exploration", "settled DB images with CURRENT/manifest removed, truncated or garbage and seeded damaged data blocks, then leveldb.Recover under the scheduler; oracle: exact contents without table damage; with damage: newest version in an undamaged block is returned, nothing invented. 40% of the cases use explicit Options.Strict levels (block checksums on, StrictRecovery and StrictReader off). 25%: the filter policy is changed (old one kept in AltFilters) right before the shutdown that precedes Recover, and one Options value serves the last session and Recover. Non-trivial: a table existed. Distinct by event-log hash."},
	"C20": {"exploration", "programs that scribble over every argument buffer right after each call and over every returned Get value, with iterator Key/Value checked stable, under buffer pool/block cache/compression knobs; mismatches are confirmed against a control run without scribbling. Concurrent cases: the leader's batch must be byte-identical after Write. Every value returned by a Get is kept and must not change later. Concurrent cases (50%, mostly storm mode with slow clients) issue writes through Write, reuse the batch the moment Write returns (a poison record that must never reach the DB) and require an acknowledged batch to be in the journal already. Values include the empty value; scribbling covers the spare capacity behind a returned value (a caller may grow it in place). Non-trivial: a table was written. Distinct by event-log hash."},
}

// componentsFor: which code ran for real and which was a stub, per property.
func componentsFor(prop string) map[string]interface{} {
	m := map[string]interface{}{}
	for k, v := range realStub {
		m[k] = v
	}
	switch prop {
	case "C18":
		m["not_simulated"] = []string{"scenario ro-fs (1 case in 7): leveldb/storage file_storage.go runs for real against a scratch directory of the real file system (it has no seam below it); the directory is compared entry by entry before and after a read-only open. Scheduling of the DB's goroutines is still the simulator's."}
	case "C07":
		m["not_simulated"] = []string{"operation fsrw (5% of the cases, at the end of the program): leveldb/storage file_storage.go runs for real against a scratch directory of the real file system holding the settled image, with live tables under the legacy .sst name; the directory is compared with the manifest after rewrite + CompactRange + settling, and after a reopen."}
	case "C12", "C13":
		m["note"] = "component level: journal / table reader and writer run for real over in-memory byte streams; there are no goroutines, so the scheduler takes no decisions and the explored space is inputs x damage positions"
	}
	return m
}

var realStub = map[string]interface{}{
	"real_code": []string{"leveldb (DB, session, versions, compaction, transactions, iterators)", "leveldb/journal", "leveldb/memdb", "leveldb/table", "leveldb/cache", "leveldb/iterator", "leveldb/filter", "leveldb/comparer", "leveldb/util", "leveldb/opt", "leveldb/errors"},
	"stubbed":   []string{"storage: simdisk replaces leveldb/storage file_storage.go and the OS (durability model of DESIGN.md §2.3)", "Go scheduler and select choice: verif/simrt seeded scheduler", "sync.Mutex/RWMutex/WaitGroup/Once/Pool: simrt equivalents", "wall clock/timers: testing/synctest fake clock", "finalizers: removed", "global math/rand: seeded"},
}

func writeEvidence(prop, tier string, seed uint64, a *WorkerOut, wall time.Duration, nviol, workers, detChecked, quota, handedOut int) {
	info := propInfo[prop]
	distinct := map[uint64]bool{}
	for _, h := range a.Hashes {
		distinct[h] = true
	}
	var samples []interface{}
	for _, s := range a.Samples {
		var v interface{}
		json.Unmarshal(s, &v)
		samples = append(samples, v)
	}
	if samples == nil {
		samples = []interface{}{}
	}
	perHour := 0.0
	if wall > 0 {
		perHour = float64(a.Runs) / wall.Hours()
	}
	cov := map[string]interface{}{
		"evaluations":                 a.Runs,
		"distinct_nontrivial":         len(distinct),
		"nontrivial_runs":             a.NonTrivial,
		"rule":                        info.rule,
		"samples":                     samples,
		"runs_per_hour":               int64(perHour),
		"seeds_per_hour":              int64(perHour),
		"workers":                     workers,
		"simulated_time_s":            a.SimMs / 1000,
		"scheduling_points":           a.Steps,
		"scheduler_decisions":         a.Decisions,
		"context_switches":            a.Switches,
		"storage_events":              a.Events,
		"faults_fired":                a.Fired,
		"reach_probes":                a.Probes,
		"distinct_lsm_shapes":         len(a.Shapes),
		"distinct_switch_site_pairs":  map[string]interface{}{"max_in_one_run": a.PairsMax, "sum_over_runs": a.PairsSum},
		"step_limit_inconclusive":     a.StepLimit,
		"notes_other_oracles":         a.Notes,
		"determinism_rechecked_seeds": detChecked,
		"components":                  componentsFor(prop),
		"exhaustive":                  false,
	}
	if quota > 0 {
		// quick: a fixed set of seeds, so the counts above are the same on any
		// machine; only wall_s and the per-hour rates depend on its speed
		cov["seed_quota"] = quota
		cov["seed_quota_completed"] = a.Runs >= quota
		cov["seed_range"] = fmt.Sprintf("VERIF_SEED*1000003 + [0,%d)", handedOut)
	} else {
		cov["wall_budget_mode"] = true
	}
	ev := map[string]interface{}{
		"property_id": prop,
		"tier":        tier,
		"seed":        seed,
		"level":       info.level,
		"coverage":    cov,
		"assumptions": []string{
			"simdisk durability model: bytes up to the last successful Sync are durable, namespace operations are atomic and durable in issue order",
			"yieldgen rewrites preserve Go semantics (checked by running the repository's own test suite on the instrumented tree in pass-through mode)",
			"goroutines blocked on the same channel wake in FIFO order (Go runtime behaviour)",
			"scheduling granularity: statements in leveldb, memdb, cache and table packages (field read-modify-writes such as x.f = append(x.f, ...) and x.f++ are split into read and write); synchronisation operations elsewhere",
		},
		"wall_s":     wall.Seconds(),
		"violations": nviol,
	}
	dir := filepath.Join(verifDir, "evidence")
	if d := os.Getenv("VERIF_EVIDENCE_DIR"); d != "" {
		dir = d // exploratory background runs must not overwrite the registered evidence
	}
	os.MkdirAll(dir, 0o755)
	b, _ := json.MarshalIndent(ev, "", " ")
	if err := os.WriteFile(filepath.Join(dir, prop+".json"), b, 0o644); err != nil {
		fmt.Println("cannot write evidence:", err)
	}
}
