package sim

import (
	"reflect"
	"testing"
	"time"
)

// hasFinger reports whether the run produced a violation with the fingerprint.
func hasFinger(out *RunOut, finger string) bool {
	for _, v := range out.Viol {
		if v.Finger == finger {
			return true
		}
	}
	return false
}

// Shrink minimises a failing case while the same violation class (same
// oracle fingerprint) persists: drop operations (delta debugging), simplify
// operations, drop faults, move knobs toward defaults, simplify the schedule.
func Shrink(t *testing.T, c *Case, finger string, budget time.Duration, maxRuns int) (*Case, int) {
	deadline := time.Now().Add(budget)
	runs := 0
	best := c.Clone()
	try := func(cand *Case) bool {
		if runs >= maxRuns || time.Now().After(deadline) {
			return false
		}
		runs++
		out := RunCase(t, cand, false)
		if hasFinger(out, finger) {
			best = cand
			return true
		}
		return false
	}
	over := func() bool { return runs >= maxRuns || time.Now().After(deadline) }

	for pass := 0; pass < 6 && !over(); pass++ {
		before := best.Size()
		// 1. drop whole clients (keep at least one)
		for ci := len(best.Clients) - 1; ci >= 0 && len(best.Clients) > 1; ci-- {
			cand := best.Clone()
			cand.Clients = append(cand.Clients[:ci], cand.Clients[ci+1:]...)
			try(cand)
		}
		// 2. delta-debug each client's program
		for ci := 0; ci < len(best.Clients) && !over(); ci++ {
			n := len(best.Clients[ci])
			for chunk := n / 2; chunk >= 1 && !over(); chunk /= 2 {
				for start := 0; start+chunk <= len(best.Clients[ci]) && !over(); {
					cand := best.Clone()
					ops := cand.Clients[ci]
					cand.Clients[ci] = append(append([]Op{}, ops[:start]...), ops[start+chunk:]...)
					if !try(cand) {
						start += chunk
					}
				}
			}
		}
		// 3. drop faults
		for fi := len(best.Faults) - 1; fi >= 0 && !over(); fi-- {
			cand := best.Clone()
			cand.Faults = append(cand.Faults[:fi], cand.Faults[fi+1:]...)
			try(cand)
		}
		for fi := 0; fi < len(best.Faults) && !over(); fi++ {
			if best.Faults[fi].Count > 1 {
				cand := best.Clone()
				cand.Faults[fi].Count = 1
				try(cand)
			}
		}
		// 4. simplify operations
		for ci := 0; ci < len(best.Clients) && !over(); ci++ {
			for oi := 0; oi < len(best.Clients[ci]) && !over(); oi++ {
				op := best.Clients[ci][oi]
				if len(op.Recs) > 1 {
					for ri := len(op.Recs) - 1; ri >= 0 && !over(); ri-- {
						if len(best.Clients[ci][oi].Recs) <= 1 {
							break
						}
						cand := best.Clone()
						rs := cand.Clients[ci][oi].Recs
						cand.Clients[ci][oi].Recs = append(rs[:ri], rs[ri+1:]...)
						try(cand)
					}
				}
				if len(op.Body) > 0 {
					for bi := len(op.Body) - 1; bi >= 0 && !over(); bi-- {
						if bi >= len(best.Clients[ci][oi].Body) {
							continue
						}
						cand := best.Clone()
						bs := cand.Clients[ci][oi].Body
						cand.Clients[ci][oi].Body = append(bs[:bi], bs[bi+1:]...)
						try(cand)
					}
				}
				if len(op.Moves) > 1 {
					for chunk := len(op.Moves) / 2; chunk >= 1 && !over(); chunk /= 2 {
						for start := 0; start+chunk <= len(best.Clients[ci][oi].Moves) && !over(); {
							cand := best.Clone()
							mv := cand.Clients[ci][oi].Moves
							cand.Clients[ci][oi].Moves = append(append([]Move{}, mv[:start]...), mv[start+chunk:]...)
							if !try(cand) {
								start += chunk
							}
						}
					}
				}
				if op.Val.Len > minValLen {
					cand := best.Clone()
					cand.Clients[ci][oi].Val.Len = minValLen
					if !try(cand) && op.Val.Len > 200 {
						cand = best.Clone()
						cand.Clients[ci][oi].Val.Len = op.Val.Len / 2
						try(cand)
					}
				}
				for ri := range best.Clients[ci][oi].Recs {
					if over() {
						break
					}
					if best.Clients[ci][oi].Recs[ri].Val.Len > minValLen {
						cand := best.Clone()
						cand.Clients[ci][oi].Recs[ri].Val.Len = minValLen
						try(cand)
					}
				}
				if op.Sync || op.NoMerge || op.DontFill || op.HasS || op.HasL {
					cand := best.Clone()
					o := &cand.Clients[ci][oi]
					o.Sync, o.NoMerge, o.DontFill = false, false, false
					if !try(cand) && (op.HasS || op.HasL) {
						cand = best.Clone()
						o = &cand.Clients[ci][oi]
						o.HasS, o.HasL, o.Start, o.Limit = false, false, nil, nil
						try(cand)
					}
				}
				if op.Knob != nil {
					cand := best.Clone()
					cand.Clients[ci][oi].Knob = nil
					try(cand)
				}
			}
		}
		// 5. knobs toward defaults
		shrinkKnobs := func(get func(c *Case) *Knobs) {
			kv := reflect.ValueOf(get(best)).Elem()
			for i := 0; i < kv.NumField() && !over(); i++ {
				if kv.Type().Field(i).Name == "Comparer" {
					continue
				}
				f := kv.Field(i)
				if f.IsZero() {
					continue
				}
				cand := best.Clone()
				reflect.ValueOf(get(cand)).Elem().Field(i).Set(reflect.Zero(f.Type()))
				if try(cand) {
					kv = reflect.ValueOf(get(best)).Elem()
				}
			}
		}
		shrinkKnobs(func(c *Case) *Knobs { return &c.Knobs })
		if best.Knobs.Comparer != "bytewise" && best.Knobs.Comparer != "" && !over() {
			cand := best.Clone()
			cand.Knobs.Comparer = "bytewise"
			try(cand)
		}
		// 6. schedule
		if !over() && (best.Sched.Strategy != 0 || best.Sched.YieldP != 0 || best.Sched.StallP != 0 || best.Sched.PoolDropP != 0) {
			cand := best.Clone()
			cand.Sched = SchedCfg{}
			if !try(cand) {
				if best.Sched.StallP != 0 {
					cand = best.Clone()
					cand.Sched.StallP = 0
					try(cand)
				}
				if best.Sched.PoolDropP != 0 {
					cand = best.Clone()
					cand.Sched.PoolDropP = 0
					try(cand)
				}
			}
		}
		if best.Size() >= before {
			break
		}
	}
	return best, runs
}
