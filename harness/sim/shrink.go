package sim

import (
	"reflect"
	"testing"
	"time"
)

// hasFinger reports whether the run produced a violation with the fingerprint.
func hasFinger(out *RunOut, finger string) bool {
	for _, v := range out.Viol {
		if v.Finger == finger {
			return true
		}
	}
	return false
}

// Shrink minimises a failing case while the same violation class (same
// oracle fingerprint) persists: drop operations (delta debugging), simplify
// operations, drop faults, move knobs toward defaults, simplify the schedule.
func Shrink(t *testing.T, c *Case, finger string, budget time.Duration, maxRuns int) (*Case, int) {
	deadline := time.Now().Add(budget)
	runs := 0
	best := c.Clone()
	try := func(cand *Case) bool {
		if runs >= maxRuns || time.Now().After(deadline) {
			return false
		}
		runs++
		out := RunCase(t, cand, false)
		if hasFinger(out, finger) {
			best = cand
			return true
		}
		return false
	}
	over := func() bool { return runs >= maxRuns || time.Now().After(deadline) }

	for pass := 0; pass < 6 && !over(); pass++ {
		before := best.Size()
		// 1. drop whole clients (keep at least one)
		for ci := len(best.Clients) - 1; ci >= 0 && len(best.Clients) > 1; ci-- {
			cand := best.Clone()
			cand.Clients = append(cand.Clients[:ci], cand.Clients[ci+1:]...)
			try(cand)
		}
		// 2. delta-debug each client's program
		for ci := 0; ci < len(best.Clients) && !over(); ci++ {
			n := len(best.Clients[ci])
			for chunk := n / 2; chunk >= 1 && !over(); chunk /= 2 {
				for start := 0; start+chunk <= len(best.Clients[ci]) && !over(); {
					cand := best.Clone()
					ops := cand.Clients[ci]
					cand.Clients[ci] = append(append([]Op{}, ops[:start]...), ops[start+chunk:]...)
					if !try(cand) {
						start += chunk
					}
				}
			}
		}
		// 3. drop faults
		for fi := len(best.Faults) - 1; fi >= 0 && !over(); fi-- {
			cand := best.Clone()
			cand.Faults = append(cand.Faults[:fi], cand.Faults[fi+1:]...)
			try(cand)
		}
		for fi := 0; fi < len(best.Faults) && !over(); fi++ {
			if best.Faults[fi].Count > 1 {
				cand := best.Clone()
				cand.Faults[fi].Count = 1
				try(cand)
			}
		}
		// 4. simplify operations
		for ci := 0; ci < len(best.Clients) && !over(); ci++ {
			for oi := 0; oi < len(best.Clients[ci]) && !over(); oi++ {
				op := best.Clients[ci][oi]
				if len(op.Recs) > 1 {
					for ri := len(op.Recs) - 1; ri >= 0 && !over(); ri-- {
						if len(best.Clients[ci][oi].Recs) <= 1 {
							break
						}
						cand := best.Clone()
						rs := cand.Clients[ci][oi].Recs
						cand.Clients[ci][oi].Recs = append(rs[:ri], rs[ri+1:]...)
						try(cand)
					}
				}
				if len(op.Body) > 0 {
					for bi := len(op.Body) - 1; bi >= 0 && !over(); bi-- {
						if bi >= len(best.Clients[ci][oi].Body) {
							continue
						}
						cand := best.Clone()
						bs := cand.Clients[ci][oi].Body
						cand.Clients[ci][oi].Body = append(bs[:bi], bs[bi+1:]...)
						try(cand)
					}
				}
				if len(op.Moves) > 1 {
					for chunk := len(op.Moves) / 2; chunk >= 1 && !over(); chunk /= 2 {
						for start := 0; start+chunk <= len(best.Clients[ci][oi].Moves) && !over(); {
							cand := best.Clone()
							mv := cand.Clients[ci][oi].Moves
							cand.Clients[ci][oi].Moves = append(append([]Move{}, mv[:start]...), mv[start+chunk:]...)
							if !try(cand) {
								start += chunk
							}
						}
					}
				}
				if op.Val.Len > minValLen {
					cand := best.Clone()
					cand.Clients[ci][oi].Val.Len = minValLen
					if !try(cand) && op.Val.Len > 200 {
						cand = best.Clone()
						cand.Clients[ci][oi].Val.Len = op.Val.Len / 2
						try(cand)
					}
				}
				for ri := range best.Clients[ci][oi].Recs {
					if over() {
						break
					}
					if best.Clients[ci][oi].Recs[ri].Val.Len > minValLen {
						cand := best.Clone()
						cand.Clients[ci][oi].Recs[ri].Val.Len = minValLen
						try(cand)
					}
				}
				if op.Sync || op.NoMerge || op.DontFill || op.HasS || op.HasL {
					cand := best.Clone()
					o := &cand.Clients[ci][oi]
					o.Sync, o.NoMerge, o.DontFill = false, false, false
					if !try(cand) && (op.HasS || op.HasL) {
						cand = best.Clone()
						o = &cand.Clients[ci][oi]
						o.HasS, o.HasL, o.Start, o.Limit = false, false, nil, nil
						try(cand)
					}
				}
				if op.Knob != nil {
					cand := best.Clone()
					cand.Clients[ci][oi].Knob = nil
					try(cand)
				}
			}
		}
		// 4b. component cases
		if best.Comp != nil {
			ddmin := func(n func(c *Case) int, cut func(c *Case, start, chunk int)) {
				for chunk := n(best) / 2; chunk >= 1 && !over(); chunk /= 2 {
					for start := 0; start+chunk <= n(best) && !over(); {
						cand := best.Clone()
						cut(cand, start, chunk)
						if !try(cand) {
							start += chunk
						}
					}
				}
			}
			ddmin(func(c *Case) int { return len(c.Comp.Lens) }, func(c *Case, st, ch int) {
				c.Comp.Lens = append(append([]int{}, c.Comp.Lens[:st]...), c.Comp.Lens[st+ch:]...)
				if len(c.Comp.Flush) >= st+ch {
					c.Comp.Flush = append(append([]bool{}, c.Comp.Flush[:st]...), c.Comp.Flush[st+ch:]...)
				}
			})
			ddmin(func(c *Case) int { return len(c.Comp.Pairs) }, func(c *Case, st, ch int) {
				c.Comp.Pairs = append(append([]Rec{}, c.Comp.Pairs[:st]...), c.Comp.Pairs[st+ch:]...)
			})
			ddmin(func(c *Case) int { return len(c.Comp.Moves) }, func(c *Case, st, ch int) {
				c.Comp.Moves = append(append([]Move{}, c.Comp.Moves[:st]...), c.Comp.Moves[st+ch:]...)
			})
			for pi := len(best.Comp.Prog) - 1; pi >= 1 && !over(); pi-- {
				cand := best.Clone()
				cand.Comp.Prog = append(cand.Comp.Prog[:pi], cand.Comp.Prog[pi+1:]...)
				try(cand)
			}
			for pi := 0; pi < len(best.Comp.Prog) && !over(); pi++ {
				pi := pi
				ddmin(func(c *Case) int {
					if pi >= len(c.Comp.Prog) {
						return 0
					}
					return len(c.Comp.Prog[pi])
				}, func(c *Case, st, ch int) {
					p := c.Comp.Prog[pi]
					c.Comp.Prog[pi] = append(append([]COp{}, p[:st]...), p[st+ch:]...)
				})
				for oi := 0; pi < len(best.Comp.Prog) && oi < len(best.Comp.Prog[pi]) && !over(); oi++ {
					if len(best.Comp.Prog[pi][oi].Moves) > 1 {
						oi := oi
						ddmin(func(c *Case) int { return len(c.Comp.Prog[pi][oi].Moves) }, func(c *Case, st, ch int) {
							m := c.Comp.Prog[pi][oi].Moves
							c.Comp.Prog[pi][oi].Moves = append(append([]Move{}, m[:st]...), m[st+ch:]...)
						})
					}
				}
			}
			for i := range best.Comp.Pairs {
				if over() {
					break
				}
				if best.Comp.Pairs[i].Val.Len > minValLen {
					cand := best.Clone()
					cand.Comp.Pairs[i].Val.Len = minValLen
					try(cand)
				}
			}
			for i := range best.Comp.Lens {
				if over() {
					break
				}
				if best.Comp.Lens[i] > 8 {
					cand := best.Clone()
					cand.Comp.Lens[i] = best.Comp.Lens[i] / 2
					try(cand)
				}
			}
			if best.Comp.HasS || best.Comp.HasL {
				cand := best.Clone()
				cand.Comp.HasS, cand.Comp.HasL, cand.Comp.Start, cand.Comp.Limit = false, false, nil, nil
				try(cand)
			}
		}
		// 5. knobs toward defaults
		shrinkKnobs := func(get func(c *Case) *Knobs) {
			kv := reflect.ValueOf(get(best)).Elem()
			for i := 0; i < kv.NumField() && !over(); i++ {
				if kv.Type().Field(i).Name == "Comparer" {
					continue
				}
				f := kv.Field(i)
				if f.IsZero() {
					continue
				}
				cand := best.Clone()
				reflect.ValueOf(get(cand)).Elem().Field(i).Set(reflect.Zero(f.Type()))
				if try(cand) {
					kv = reflect.ValueOf(get(best)).Elem()
				}
			}
		}
		shrinkKnobs(func(c *Case) *Knobs { return &c.Knobs })
		if best.Knobs.Comparer != "bytewise" && best.Knobs.Comparer != "" && !over() {
			cand := best.Clone()
			cand.Knobs.Comparer = "bytewise"
			try(cand)
		}
		// 6. schedule
		if !over() && (best.Sched.Strategy != 0 || best.Sched.YieldP != 0 || best.Sched.StallP != 0 || best.Sched.PoolDropP != 0) {
			cand := best.Clone()
			cand.Sched = SchedCfg{}
			if !try(cand) {
				if best.Sched.StallP != 0 {
					cand = best.Clone()
					cand.Sched.StallP = 0
					try(cand)
				}
				if best.Sched.PoolDropP != 0 {
					cand = best.Clone()
					cand.Sched.PoolDropP = 0
					try(cand)
				}
			}
		}
		if best.Size() >= before {
			break
		}
	}
	return best, runs
}
