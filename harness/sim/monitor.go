package sim

import (
	"bytes"
	"fmt"
	"sort"
	"strings"

	"github.com/syndtr/goleveldb/leveldb/storage"
	"verif/harness/decode"
	"verif/simrt"
)

// monitor watches the storage seam (DESIGN.md §2.3 "seam monitors"): it
// decodes every manifest record as it is persisted and maintains the table
// set goleveldb treats as live, checks the LSM shape invariants (I-lsm) on
// each version edit and the file-conservation invariants (I-files).

type mstate struct {
	gen     int
	off     int
	levels  map[int]map[int64]decode.TableMeta
	journal int64
	prevJ   int64
	seq     uint64
	next    int64
	nrec    int
}

type tsummary struct {
	gen     int
	ok      bool
	err     string
	first   []byte
	last    []byte
	n       int
	ordered string               // "" or description of the first disorder
	keys    map[string][2]uint64 // ukey -> min,max seq
}

type monitor struct {
	r           *runner
	ucmp        func(a, b []byte) int
	ms          map[int64]*mstate
	tables      map[int64]*tsummary
	quiet       bool
	checks      int
	removedLive map[int64]bool
	edits       int // version edits applied so far (all manifests)
}

func newMonitor(r *runner, ucmp func(a, b []byte) int) *monitor {
	m := &monitor{r: r, ucmp: ucmp, ms: map[int64]*mstate{}, tables: map[int64]*tsummary{}}
	d := r.disk
	d.H.OnEvent = func(n int, op string, fd storage.FileDesc) { m.poll() }
	d.H.OnSetMeta = func(fd storage.FileDesc) {
		m.poll()
		if st := m.ms[fd.Num]; st != nil && !m.quiet {
			m.checkVersion(st, "CURRENT switched to "+fd.String())
		}
	}
	d.H.OnMutate = func(op string, fd storage.FileDesc) {
		if g := simrt.Cur(); g != nil {
			r.mutBy[g.ID]++
		}
		if op == "create" {
			switch fd.Type {
			case storage.TypeTable:
				r.probe("table-write")
			case storage.TypeJournal:
				r.probe("journal-create")
			case storage.TypeManifest:
				r.probe("manifest-create")
			}
		}
		if r.roCheck && op != "" {
			r.viol("readonly-mutate", "readonly-mutate:"+op+":"+fd.Type.String(), fmt.Sprintf("read-only DB performed %s on %s", op, fd))
		}
	}
	d.H.OnRemove = func(fd storage.FileDesc) {
		m.poll()
		if fd.Type != storage.TypeTable || r.errFaultsFired() > 0 {
			// after a failed commit the persisted manifest may be ahead of
			// the version the DB actually installed
			return
		}
		if st := m.current(); st != nil {
			for lv, ts := range st.levels {
				if _, ok := ts[fd.Num]; ok {
					r.viol("remove-live", "remove-live", fmt.Sprintf("table %s removed while it is live at level %d of the current version", fd, lv))
				}
			}
		}
	}
	d.H.OnReadRemoved = func(fd storage.FileDesc) {
		r.viol("read-removed", "read-removed", fmt.Sprintf("%s was read after it had been removed: a reader still needed it", fd))
	}
	return m
}

func (m *monitor) current() *mstate {
	meta := m.r.disk.Meta()
	if meta.Zero() {
		return nil
	}
	return m.ms[meta.Num]
}

// epochStart rebuilds the state silently from what survived.
func (m *monitor) epochStart() {
	m.ms = map[int64]*mstate{}
	m.quiet = true
	m.poll()
	m.quiet = false
}

func (m *monitor) poll() {
	d := m.r.disk
	for _, fd := range d.ListFiles(storage.TypeManifest) {
		data, _ := d.Data(fd)
		st := m.ms[fd.Num]
		if st == nil || st.gen != d.Gen(fd) {
			// new file, or a file number re-created after a crash
			st = &mstate{levels: map[int]map[int64]decode.TableMeta{}, gen: d.Gen(fd)}
			m.ms[fd.Num] = st
		}
		if len(data) <= st.off {
			continue
		}
		// decode complete records beyond the processed offset; chunks are
		// block-aligned so decoding from a record boundary is sound.
		recs, stop, _ := decodeFrom(data, st.off)
		for _, rc := range recs {
			e, err := decode.ParseEdit(rc.Data)
			if err != nil {
				if !m.quiet && !m.r.faulty {
					m.r.viol("lsm", "lsm:manifest-undecodable", fmt.Sprintf("manifest %s record at %d undecodable: %v", fd, rc.Start, err))
				}
				continue
			}
			m.apply(st, &e)
			m.edits++
			if !m.quiet && fd == d.Meta() {
				m.checkVersion(st, fmt.Sprintf("edit #%d in %s", st.nrec, fd))
			}
		}
		st.off = stop
	}
}

// decodeFrom decodes journal framing starting at a record boundary offset.
func decodeFrom(data []byte, off int) ([]decode.JournalRecord, int, bool) {
	// the framing depends on absolute block positions, so decode the whole
	// stream but only return records that start at or after off
	recs, stop, clean := decode.Journal(data)
	var out []decode.JournalRecord
	for _, r := range recs {
		if r.Start >= off {
			out = append(out, r)
		}
	}
	return out, stop, clean
}

func (m *monitor) apply(st *mstate, e *decode.Edit) {
	st.nrec++
	if e.HasJournalNum {
		st.journal = e.JournalNum
	}
	if e.HasPrevJournal {
		st.prevJ = e.PrevJournalNum
	}
	if e.HasSeq {
		if e.SeqNum < st.seq && !m.quiet && !m.r.faulty {
			m.r.viol("lsm", "lsm:seq-decreased", fmt.Sprintf("manifest sequence number decreased from %d to %d", st.seq, e.SeqNum))
		}
		st.seq = e.SeqNum
	}
	if e.HasNextFile {
		st.next = e.NextFileNum
	}
	flush := false
	for _, t := range e.Deleted {
		if lv := st.levels[t.Level]; lv != nil {
			delete(lv, t.Num)
		}
	}
	for _, t := range e.Added {
		lv := st.levels[t.Level]
		if lv == nil {
			lv = map[int64]decode.TableMeta{}
			st.levels[t.Level] = lv
		}
		lv[t.Num] = t
		if t.Level == 0 && len(e.Deleted) == 0 {
			flush = true
		}
	}
	if m.quiet || st.nrec == 1 {
		return
	}
	switch {
	case len(e.Deleted) > 0 && len(e.Added) > 0:
		moved := len(e.Deleted) == 1 && len(e.Added) == 1 && e.Deleted[0].Num == e.Added[0].Num
		if moved {
			m.r.probe("trivial-move")
		} else {
			m.r.probe("compaction")
			mx := 0
			for _, t := range e.Added {
				if t.Level > mx {
					mx = t.Level
				}
			}
			if mx >= 2 {
				m.r.probe("compaction-deep")
			}
		}
	case len(e.Deleted) > 0:
		m.r.probe("compaction-drop-all")
	case flush:
		m.r.probe("flush")
	}
}

func (m *monitor) icmp(a, b []byte) int {
	ua, sa, ta, ok1 := decode.SplitIKey(a)
	ub, sb, tb, ok2 := decode.SplitIKey(b)
	if !ok1 || !ok2 {
		return bytes.Compare(a, b)
	}
	if c := m.ucmp(ua, ub); c != 0 {
		return c
	}
	na, nb := sa<<8|uint64(ta), sb<<8|uint64(tb)
	switch {
	case na > nb:
		return -1
	case na < nb:
		return 1
	}
	return 0
}

func (m *monitor) summary(num int64) *tsummary {
	d := m.r.disk
	fd := storage.FileDesc{Type: storage.TypeTable, Num: num}
	data, ok := d.Data(fd)
	if !ok {
		return &tsummary{err: "missing"}
	}
	gen := d.Gen(fd)
	if s := m.tables[num]; s != nil && s.gen == gen && s.n >= 0 {
		return s
	}
	s := &tsummary{gen: gen, keys: map[string][2]uint64{}}
	t, err := decode.ParseTable(data)
	if err != nil {
		s.err = err.Error()
		m.tables[num] = s
		return s
	}
	s.ok = true
	s.n = len(t.Entries)
	for i, e := range t.Entries {
		if i == 0 {
			s.first = e.Key
		}
		s.last = e.Key
		if i > 0 && s.ordered == "" && m.icmp(t.Entries[i-1].Key, e.Key) >= 0 {
			s.ordered = fmt.Sprintf("entry %d (%q) is not greater than entry %d (%q)", i, e.Key, i-1, t.Entries[i-1].Key)
		}
		uk, seq, _, ok := decode.SplitIKey(e.Key)
		if !ok {
			s.ordered = fmt.Sprintf("entry %d has a malformed internal key", i)
			continue
		}
		mm, seen := s.keys[string(uk)]
		if !seen {
			mm = [2]uint64{seq, seq}
		} else {
			if seq < mm[0] {
				mm[0] = seq
			}
			if seq > mm[1] {
				mm[1] = seq
			}
		}
		s.keys[string(uk)] = mm
	}
	m.tables[num] = s
	return s
}

// checkVersion evaluates I-lsm on the version described by st.
func (m *monitor) checkVersion(st *mstate, why string) {
	m.checks++
	r := m.r
	d := r.disk
	bad := func(kind, f string, a ...interface{}) {
		r.viol("lsm", "lsm:"+kind, fmt.Sprintf("after %s: ", why)+fmt.Sprintf(f, a...))
	}
	var lvls []int
	for lv := range st.levels {
		lvls = append(lvls, lv)
	}
	sort.Ints(lvls)
	type kr struct {
		level    int
		min, max uint64
	}
	perKey := map[string][]kr{}
	for _, lv := range lvls {
		ts := st.levels[lv]
		var nums []int64
		for n := range ts {
			nums = append(nums, n)
		}
		sort.Slice(nums, func(i, j int) bool { return nums[i] < nums[j] })
		var metas []decode.TableMeta
		lvKeys := map[string][2]uint64{}
		for _, n := range nums {
			tm := ts[n]
			fd := storage.FileDesc{Type: storage.TypeTable, Num: n}
			data, ok := d.Data(fd)
			if !ok {
				if !r.faulty {
					bad("missing-file", "live table %s (level %d) does not exist", fd, lv)
				}
				continue
			}
			if int64(len(data)) != tm.Size {
				bad("size", "live table %s has %d bytes, recorded size %d", fd, len(data), tm.Size)
				continue
			}
			s := m.summary(n)
			if !s.ok {
				if !r.faulty {
					bad("unreadable", "live table %s cannot be decoded: %s", fd, s.err)
				}
				continue
			}
			if s.ordered != "" {
				bad("order", "table %s: %s", fd, s.ordered)
			}
			if s.n == 0 {
				bad("empty", "live table %s has no entries", fd)
				continue
			}
			if !bytes.Equal(s.first, tm.Imin) || !bytes.Equal(s.last, tm.Imax) {
				bad("bounds", "table %s: recorded smallest/largest %q/%q differ from first/last entry %q/%q", fd, tm.Imin, tm.Imax, s.first, s.last)
			}
			metas = append(metas, tm)
			for k, mm := range s.keys {
				cur, seen := lvKeys[k]
				if !seen {
					lvKeys[k] = mm
				} else {
					if mm[0] < cur[0] {
						cur[0] = mm[0]
					}
					if mm[1] > cur[1] {
						cur[1] = mm[1]
					}
					lvKeys[k] = cur
				}
			}
		}
		if lv >= 1 {
			sort.Slice(metas, func(i, j int) bool { return m.icmp(metas[i].Imin, metas[j].Imin) < 0 })
			for i := 1; i < len(metas); i++ {
				pu, _, _, _ := decode.SplitIKey(metas[i-1].Imax)
				nu, _, _, _ := decode.SplitIKey(metas[i].Imin)
				if m.ucmp(pu, nu) >= 0 {
					bad("overlap", "level %d: tables %d [..%q] and %d [%q..] overlap in user-key range", lv, metas[i-1].Num, pu, metas[i].Num, nu)
				}
			}
		}
		for k, mm := range lvKeys {
			perKey[k] = append(perKey[k], kr{lv, mm[0], mm[1]})
		}
	}
	for k, rs := range perKey {
		for i := 0; i < len(rs); i++ {
			for j := 0; j < len(rs); j++ {
				if rs[i].level < rs[j].level && rs[i].min <= rs[j].max {
					bad("level-seq", "user key %q: level %d holds seq %d which is not newer than seq %d in deeper level %d", k, rs[i].level, rs[i].min, rs[j].max, rs[j].level)
					return
				}
			}
		}
	}
}

// checkFilesSettled evaluates I-files at a quiescent point: storage holds
// exactly the live tables, the live journal, the live manifest.
func (m *monitor) checkFilesSettled() {
	m.poll()
	r := m.r
	d := r.disk
	st := m.current()
	if st == nil {
		return
	}
	r.probe("settle-check")
	want := map[storage.FileDesc]bool{d.Meta(): true}
	// live journals: everything recovery would replay (the frozen buffer's
	// journal may legitimately still wait for its flush)
	for _, fd := range d.ListFiles(storage.TypeJournal) {
		if fd.Num >= st.journal || (st.prevJ != 0 && fd.Num == st.prevJ) {
			want[fd] = true
		}
	}
	for _, ts := range st.levels {
		for n := range ts {
			want[storage.FileDesc{Type: storage.TypeTable, Num: n}] = true
		}
	}
	have := d.ListFiles(storage.TypeAll)
	for _, fd := range have {
		if !want[fd] {
			r.viol("files-residue", "files-residue:extra:"+fd.Type.String(), fmt.Sprintf("at quiescence storage holds %s which is not part of the live state (live: %s)", fd, m.shape()))
			return
		}
		delete(want, fd)
	}
	var missing []storage.FileDesc
	for fd := range want {
		missing = append(missing, fd)
	}
	sort.Slice(missing, func(i, j int) bool { return missing[i].Num < missing[j].Num })
	for _, fd := range missing {
		r.viol("files-residue", "files-residue:missing:"+fd.Type.String(), fmt.Sprintf("at quiescence live file %s is missing", fd))
		return
	}
}

func (m *monitor) shape() string {
	st := m.current()
	if st == nil {
		return "-"
	}
	mx := -1
	for lv, ts := range st.levels {
		if len(ts) > 0 && lv > mx {
			mx = lv
		}
	}
	var parts []string
	for lv := 0; lv <= mx; lv++ {
		parts = append(parts, fmt.Sprint(len(st.levels[lv])))
	}
	return strings.Join(parts, "/")
}

// ---- hang / panic fingerprints ----

func siteFunc(site string) string {
	if i := strings.IndexByte(site, '#'); i >= 0 {
		return site[:i]
	}
	return site
}

func hangFinger(h *simrt.HangReport) string {
	// the set of sites at which client calls are stuck (not which calls: the
	// same deadlock blocks whatever happens to be in flight)
	set := map[string]bool{}
	for _, g := range h.Goroutines {
		if strings.HasPrefix(g.Name, "client") || g.Op != "" {
			if g.State == "dead" {
				continue
			}
			set[siteFunc(g.Site)] = true
		}
	}
	if len(set) == 0 {
		// no goroutine is marked as a client call: name every blocked one
		for _, g := range h.Goroutines {
			if g.State != "dead" && g.State != "done" {
				set[siteFunc(g.Site)] = true
			}
		}
	}
	var parts []string
	for p := range set {
		parts = append(parts, p)
	}
	sort.Strings(parts)
	return "hang:" + strings.Join(parts, ",")
}

func hangDetail(h *simrt.HangReport) string {
	var b strings.Builder
	fmt.Fprintf(&b, "no progress for 600s of simulated time (sim time %v); goroutines:\n", h.SimTime)
	for _, g := range h.Goroutines {
		if g.State == "dead" {
			continue
		}
		fmt.Fprintf(&b, "  g%d %s epoch=%d state=%s at %s op=%s\n", g.ID, g.Name, g.Epoch, g.State, g.Site, g.Op)
	}
	return b.String()
}

func panicFrame(stack string) string {
	lines := strings.Split(stack, "\n")
	seenPanic := false
	for _, l := range lines {
		l = strings.TrimSpace(l)
		if strings.HasPrefix(l, "panic(") {
			seenPanic = true
			continue
		}
		if seenPanic && strings.Contains(l, "goleveldb/leveldb") && !strings.HasPrefix(l, "/") {
			if i := strings.LastIndex(l, "("); i > 0 {
				l = l[:i]
			}
			if i := strings.LastIndex(l, "/"); i >= 0 {
				l = l[i+1:]
			}
			return l
		}
	}
	return "unknown"
}

// dumpKey lists, for debugging, every entry of the given user key in the
// tables of the current version (decoded from the storage bytes).
func (m *monitor) dumpKey(key []byte) []string {
	var out []string
	st := m.current()
	if st == nil {
		return out
	}
	d := m.r.disk
	var lvls []int
	for lv := range st.levels {
		lvls = append(lvls, lv)
	}
	sort.Ints(lvls)
	for _, lv := range lvls {
		var nums []int64
		for n := range st.levels[lv] {
			nums = append(nums, n)
		}
		sort.Slice(nums, func(i, j int) bool { return nums[i] < nums[j] })
		for _, n := range nums {
			data, ok := d.Data(storage.FileDesc{Type: storage.TypeTable, Num: n})
			if !ok {
				out = append(out, fmt.Sprintf("L%d table %d MISSING", lv, n))
				continue
			}
			t, err := decode.ParseTable(data)
			if err != nil {
				out = append(out, fmt.Sprintf("L%d table %d undecodable: %v", lv, n, err))
				continue
			}
			for _, e := range t.Entries {
				uk, seq, kt, _ := decode.SplitIKey(e.Key)
				if bytes.Equal(uk, key) {
					v := e.Val
					if len(v) > 12 {
						v = v[:12]
					}
					out = append(out, fmt.Sprintf("L%d table %d (%d entries): seq=%d type=%d val=%q len=%d", lv, n, len(t.Entries), seq, kt, v, len(e.Val)))
				}
			}
		}
	}
	return out
}
