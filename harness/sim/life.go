package sim

import (
	"crypto/sha256"
	"fmt"
	"os"
	"path/filepath"
	"sort"
	"strings"

	"github.com/syndtr/goleveldb/leveldb"
	"github.com/syndtr/goleveldb/leveldb/iterator"
	"github.com/syndtr/goleveldb/leveldb/opt"
	"github.com/syndtr/goleveldb/leveldb/storage"
	"github.com/syndtr/goleveldb/leveldb/util"
	"verif/harness/decode"
	"verif/harness/simdisk"
	"verif/simrt"
)

// C18: ownership and lifecycle. Clients[0] builds a history; Life names the
// lifecycle scenario run on top of it; Clients[1:] race with Close.

func (r *runner) mainLife() {
	r.cs = &concState{valLen: map[uint32]int{}, journals: map[int64][]byte{}}
	simrt.SetEpoch(1000)
	ops := r.c.Clients[0]
	if !r.ensureOpen() {
		return
	}
	for r.pos = 0; r.pos < len(ops); r.pos++ {
		if len(r.out.Viol) > 0 {
			simrt.Abort("violation")
		}
		if !r.ensureOpen() {
			simrt.Abort("violation")
		}
		r.execOp(&ops[r.pos], nil)
		r.out.OpsDone++
	}
	if len(r.out.Viol) > 0 {
		simrt.Abort("violation")
	}
	if !r.ensureOpen() {
		simrt.Abort("violation")
	}
	switch r.c.Life {
	case "lock":
		r.lifeLock()
	case "ro-open":
		r.lifeROOpen()
	case "setro":
		r.lifeSetRO()
	case "ro-fs":
		r.lifeROFS()
	case "closed":
		r.lifeClosed()
	case "race":
		r.lifeRace()
	}
	if len(r.out.Viol) > 0 {
		simrt.Abort("violation")
	}
	if r.db != nil {
		r.closeDB()
	}
}

func (r *runner) mutations() int {
	n := 0
	for k, v := range r.disk.St.Ops {
		switch {
		case len(k) > 5 && (k[:5] == "read/" || k[:5] == "open/" || k[:5] == "list/" || k[:5] == "lock/"), len(k) > 8 && k[:8] == "getmeta/":
		default:
			n += v
		}
	}
	return n
}

// a second Open on an owned storage must fail without touching files, and
// succeed after Close.
func (r *runner) lifeLock() {
	// mutations issued by this goroutine (the first DB's background work may
	// legitimately write meanwhile)
	me := simrt.Cur().ID
	before := r.mutBy[me]
	db2, err := leveldb.Open(r.disk.Handle(), r.knobs.Options())
	simrt.Progress()
	if err == nil {
		r.viol("lock", "lock:second-open-succeeded", "a second Open on a storage owned by an open DB succeeded")
		db2.Close()
		return
	}
	if r.mutBy[me] != before {
		r.viol("lock", "lock:second-open-mutated", "the rejected second Open modified the storage")
		return
	}
	// the first DB keeps working
	r.scanAll("scan")
	r.closeDB()
	if !r.ensureOpen() {
		if len(r.out.Viol) == 0 {
			r.viol("lock", "lock:not-released", "Open after Close failed")
		}
		return
	}
	r.probe("life-lock")
}

// read-only open: no mutating storage call at all, all data readable
// including data still only in the journal.
func (r *runner) lifeROOpen() {
	r.closeDB()
	r.disk.NextEpoch(0, 0, false)
	simrt.SetEpoch(r.disk.Epoch + 1000)
	r.knobs.ReadOnly = true
	r.roCheck = true
	if err := r.open(false); err != nil {
		r.roCheck = false
		r.viol("readonly", "readonly:open-failed", fmt.Sprintf("read-only Open failed: %v", err))
		return
	}
	r.scanAll("scan")
	for _, k := range r.model.keys {
		if len(r.out.Viol) > 0 {
			break
		}
		r.doGet(&Op{K: "get", Key: k}, nil)
	}
	// writes are rejected
	r.roProbes()
	simrt.Progress()
	simrt.Quiesce()
	simrt.IdleFor(31e9)
	simrt.Quiesce()
	r.closeDB()
	r.roCheck = false
	r.knobs.ReadOnly = false
	r.disk.NextEpoch(0, 0, false)
	simrt.SetEpoch(r.disk.Epoch + 1000)
	r.probe("life-ro-open")
	r.lifeOpenGuards()
}

// Open refuses without creating or changing anything: read-only or
// ErrorIfMissing on a storage that holds no DB, ErrorIfExist on one that does.
func (r *runner) lifeOpenGuards() {
	for i, name := range []string{"read-only", "ErrorIfMissing"} {
		d2 := simdisk.New()
		o := r.knobs.Options()
		o.ReadOnly, o.ErrorIfMissing = i == 0, i == 1
		db2, err := leveldb.Open(d2.Handle(), o)
		simrt.Progress()
		if err == nil {
			db2.Close()
			r.viol("readonly", "readonly:empty-open-succeeded", fmt.Sprintf("%s Open of a storage that holds no DB succeeded", name))
			return
		}
		if n := len(d2.ListFiles(storage.TypeAll)); n != 0 || d2.Meta() != (storage.FileDesc{}) {
			r.viol("readonly", "readonly:empty-open-created", fmt.Sprintf("the refused %s Open of an empty storage left %d files, meta %v", name, n, d2.Meta()))
			return
		}
	}
	// the same at the level of the real file storage: a read-only OpenFile
	// of a path that does not exist fails and creates nothing
	if tmp, err := os.MkdirTemp("", "verif-rofs-"); err == nil {
		path := filepath.Join(tmp, "missing", "db")
		if stor, err := storage.OpenFile(path, true); err == nil {
			stor.Close()
			r.viol("readonly", "readonly:empty-open-succeeded", "read-only OpenFile of a missing directory succeeded")
		}
		if ents, _ := os.ReadDir(tmp); len(ents) != 0 {
			r.viol("readonly", "readonly:empty-open-created", fmt.Sprintf("read-only OpenFile of a missing directory created %q", ents[0].Name()))
		}
		os.RemoveAll(tmp)
	}
	me := simrt.Cur().ID
	before := r.mutBy[me]
	o := r.knobs.Options()
	o.ErrorIfExist = true
	db2, err := leveldb.Open(r.disk.Handle(), o)
	simrt.Progress()
	if err == nil {
		db2.Close()
		r.viol("lock", "lock:error-if-exist-ignored", "Open with ErrorIfExist succeeded on an existing DB")
		return
	}
	if r.mutBy[me] != before {
		r.viol("lock", "lock:refused-open-mutated", "the Open refused by ErrorIfExist modified the storage")
		return
	}
	if !r.ensureOpen() && len(r.out.Viol) == 0 {
		r.viol("lock", "lock:not-released", "Open after a refused Open failed")
	}
	r.probe("life-open-guards")
}

// roProbes: after a successful SetReadOnly every write entry point, with
// every combination of write options, answers ErrReadOnly (and answers at all:
// a call that blocks is reported by the hang detector).
func (r *runner) roProbes() {
	want := func(what string, err error) {
		if err == leveldb.ErrReadOnly || (r.faulty && err != nil) {
			return
		}
		r.viol("readonly", "readonly:write-accepted", fmt.Sprintf("%s after SetReadOnly returned %v, want ErrReadOnly", what, err))
	}
	k, v := []byte("ro-probe"), []byte("x")
	for i := 0; i < 4; i++ {
		wo := &opt.WriteOptions{Sync: i&1 != 0, NoWriteMerge: i&2 != 0}
		name := fmt.Sprintf("(sync=%v,nomerge=%v)", wo.Sync, wo.NoWriteMerge)
		simrt.SetOp("Put" + name)
		want("Put"+name, r.db.Put(k, v, wo))
		simrt.SetOp("Delete" + name)
		want("Delete"+name, r.db.Delete(k, wo))
		b := new(leveldb.Batch)
		b.Put(k, v)
		simrt.SetOp("Write" + name)
		want("Write"+name, r.db.Write(b, wo))
		big := new(leveldb.Batch)
		big.Put(k, make([]byte, 2*r.knobs.Options().GetWriteBuffer()))
		simrt.SetOp("Write-large" + name)
		want("Write-large"+name, r.db.Write(big, wo))
		simrt.Progress()
	}
	want("Put(nil)", r.db.Put(k, v, nil))
	want("Delete(nil)", r.db.Delete(k, nil))
	simrt.SetOp("OpenTransaction")
	tr, err := r.db.OpenTransaction()
	if err == nil {
		tr.Discard()
	}
	want("OpenTransaction", err)
	simrt.SetOp("CompactRange")
	want("CompactRange", r.db.CompactRange(util.Range{}))
	simrt.SetOp("")
	simrt.Progress()
}

// SetReadOnly: writes rejected, reads served, nothing mutated once
// in-flight background work has drained.
func (r *runner) lifeSetRO() {
	simrt.SetOp("SetReadOnly")
	err := r.db.SetReadOnly()
	simrt.SetOp("")
	if err != nil {
		if !r.faulty {
			r.viol("readonly", "readonly:setreadonly-failed", fmt.Sprintf("SetReadOnly returned %v", err))
		}
		return
	}
	simrt.Progress()
	r.roProbes()
	simrt.Progress()
	// drain in-flight background work, incl. the reference cache
	simrt.Quiesce()
	simrt.IdleFor(301e9)
	simrt.Quiesce()
	simrt.IdleFor(301e9)
	simrt.Quiesce()
	r.roCheck = true
	for _, k := range r.model.keys {
		if len(r.out.Viol) > 0 {
			break
		}
		r.doGet(&Op{K: "get", Key: k}, nil)
	}
	it := r.db.NewIterator(nil, nil)
	for ok := it.First(); ok; ok = it.Next() {
	}
	it.Release()
	simrt.Progress()
	simrt.Quiesce()
	r.roCheck = false
	r.probe("life-setro")
}

func (r *runner) wantClosed(what string, err error) {
	if err != leveldb.ErrClosed {
		r.viol("closed", "closed:"+what, fmt.Sprintf("%s after Close returned %v, want ErrClosed", what, err))
	}
}

// after Close every method returns the closed error without touching
// storage; a second Close is harmless; released handles report their errors.
func (r *runner) lifeClosed() {
	db := r.db
	snap, err := db.GetSnapshot()
	if err != nil {
		r.viol("closed", "closed:snapshot", fmt.Sprintf("GetSnapshot returned %v", err))
		return
	}
	rel, _ := db.GetSnapshot()
	rel.Release()
	if _, err := rel.Get([]byte("k"), nil); err != leveldb.ErrSnapshotReleased {
		r.viol("released", "released:snapshot-get", fmt.Sprintf("Get on a released snapshot returned %v", err))
	}
	if _, err := rel.Has([]byte("k"), nil); err != leveldb.ErrSnapshotReleased {
		r.viol("released", "released:snapshot-has", fmt.Sprintf("Has on a released snapshot returned %v", err))
	}
	if it := rel.NewIterator(nil, nil); it.First() || it.Error() != leveldb.ErrSnapshotReleased {
		r.viol("released", "released:snapshot-iter", fmt.Sprintf("iterator of a released snapshot: error %v", it.Error()))
	}
	rel.Release() // harmless
	it := db.NewIterator(nil, nil)
	it.First()
	it.Release()
	if it.Next() || it.Valid() || it.Error() != leveldb.ErrIterReleased {
		r.viol("released", "released:iter", fmt.Sprintf("released iterator: valid=%v error=%v", it.Valid(), it.Error()))
	}
	it.Release()
	snap.Release()
	simrt.Progress()

	r.releaseHandles()
	simrt.SetOp("Close")
	cerr := db.Close()
	simrt.SetOp("")
	simrt.Progress()
	if cerr != nil {
		r.viol("closed", "closed:close-error", fmt.Sprintf("Close returned %v", cerr))
	}
	r.db = nil
	simrt.Quiesce()
	ev := r.disk.St.Events
	k := []byte("k")
	r.wantClosed("Put", db.Put(k, k, nil))
	r.wantClosed("Delete", db.Delete(k, nil))
	b := new(leveldb.Batch)
	b.Put(k, k)
	r.wantClosed("Write", db.Write(b, nil))
	_, err = db.Get(k, nil)
	r.wantClosed("Get", err)
	_, err = db.Has(k, nil)
	r.wantClosed("Has", err)
	_, err = db.GetSnapshot()
	r.wantClosed("GetSnapshot", err)
	_, err = db.GetProperty("leveldb.stats")
	r.wantClosed("GetProperty", err)
	_, err = db.SizeOf([]util.Range{{}})
	r.wantClosed("SizeOf", err)
	var st leveldb.DBStats
	r.wantClosed("Stats", db.Stats(&st))
	r.wantClosed("CompactRange", db.CompactRange(util.Range{}))
	r.wantClosed("SetReadOnly", db.SetReadOnly())
	_, err = db.OpenTransaction()
	r.wantClosed("OpenTransaction", err)
	var cit iterator.Iterator = db.NewIterator(nil, &opt.ReadOptions{})
	if cit.First() || cit.Valid() || cit.Error() != leveldb.ErrClosed {
		r.viol("closed", "closed:NewIterator", fmt.Sprintf("iterator created after Close: valid=%v error=%v", cit.Valid(), cit.Error()))
	}
	cit.Release()
	r.wantClosed("second Close", db.Close())
	simrt.Progress()
	if r.disk.St.Events != ev {
		r.viol("closed", "closed:storage-touched", fmt.Sprintf("%d storage operations were issued by calls on a closed DB", r.disk.St.Events-ev))
	}
	// the storage is available again
	if !r.ensureOpen() && len(r.out.Viol) == 0 {
		r.viol("lock", "lock:not-released", "Open after Close failed")
	}
	r.probe("life-closed")
}

// calls racing with Close return a correct result or the closed error.
func (r *runner) lifeRace() {
	db := r.db
	r.releaseHandles()
	// keys that are certainly present when the race starts; the racing
	// clients only put, so a Get that answers at all must find them
	present := map[string]bool{}
	{
		v := View{M: r.model, N: r.model.Len()}
		for _, k := range r.model.keys {
			sure := true
			for _, c := range v.chain(k) {
				if c.del {
					sure = false
				}
			}
			if sure {
				present[string(k)] = true
			}
		}
	}
	var wg simrt.WaitGroup
	for ci := 1; ci < len(r.c.Clients); ci++ {
		ci := ci
		wg.Add(1)
		simrt.GoEpoch(1000+r.disk.Epoch, fmt.Sprintf("client%d", ci), func() {
			defer wg.Done()
			for i := range r.c.Clients[ci] {
				op := &r.c.Clients[ci][i]
				simrt.SetOp(op.K)
				switch op.K {
				case "put":
					if err := db.Put(op.Key, op.Val.Bytes(), nil); err != nil && err != leveldb.ErrClosed {
						r.viol("closed", "closed:race-put", fmt.Sprintf("Put racing Close returned %v", err))
					}
				case "get":
					if i%3 == 2 {
						if ok, e := db.Has(op.Key, nil); e == nil && !ok && present[string(op.Key)] {
							r.viol("closed", "closed:race-get-notfound", fmt.Sprintf("Has(%q) racing Close reported false for a key that was present all along", []byte(op.Key)))
						}
						break
					}
					v, err := db.Get(op.Key, nil)
					switch err {
					case nil:
						if _, ok := r.valIDAny(v); !ok {
							r.viol("closed", "closed:race-get-garbage", fmt.Sprintf("Get racing Close returned bytes never written: %s", descVal(true, v)))
						}
					case leveldb.ErrNotFound:
						if present[string(op.Key)] {
							r.viol("closed", "closed:race-get-notfound", fmt.Sprintf("Get(%q) racing Close reported not-found for a key that was present all along (it must answer correctly or with the closed error)", []byte(op.Key)))
						}
					case leveldb.ErrClosed:
					default:
						// while Close tears the table cache down a read may
						// also surface the reader's own "released" error
						if !strings.Contains(err.Error(), "released") && !strings.Contains(err.Error(), "closed") {
							r.viol("closed", "closed:race-get", fmt.Sprintf("Get racing Close returned %v", err))
						}
					}
				case "snap":
					s, err := db.GetSnapshot()
					if err == nil {
						if _, e := s.Get(op.Key, nil); e == leveldb.ErrNotFound && present[string(op.Key)] {
							r.viol("closed", "closed:race-get-notfound", fmt.Sprintf("Snapshot.Get(%q) racing Close reported not-found for a key that was present all along", []byte(op.Key)))
						}
						if ok, e := s.Has(op.Key, nil); e == nil && !ok && present[string(op.Key)] {
							r.viol("closed", "closed:race-get-notfound", fmt.Sprintf("Snapshot.Has(%q) racing Close reported false for a key that was present all along", []byte(op.Key)))
						}
						s.Release()
					} else if err != leveldb.ErrClosed {
						r.viol("closed", "closed:race-snapshot", fmt.Sprintf("GetSnapshot racing Close returned %v", err))
					}
				case "tx":
					tr, err := db.OpenTransaction()
					if err == nil {
						tr.Put(op.Key, op.Val.Bytes(), nil)
						if op.Commit {
							if err := tr.Commit(); err != nil {
								tr.Discard()
							}
						} else {
							tr.Discard()
						}
					} else if err != leveldb.ErrClosed {
						r.viol("closed", "closed:race-tx", fmt.Sprintf("OpenTransaction racing Close returned %v", err))
					}
				case "compact":
					if err := db.CompactRange(util.Range{}); err != nil && err != leveldb.ErrClosed {
						r.viol("closed", "closed:race-compact", fmt.Sprintf("CompactRange racing Close returned %v", err))
					}
				case "close":
					if err := db.Close(); err != nil && err != leveldb.ErrClosed {
						r.viol("closed", "closed:race-close", fmt.Sprintf("Close returned %v", err))
					}
				case "yield":
					simrt.Yield("harness.yield")
				}
				simrt.SetOp("")
				simrt.Progress()
				r.probe("overlap")
			}
		})
	}
	wg.Wait()
	db.Close()
	r.db = nil
	simrt.Progress()
	r.probe("life-race")
}

func (r *runner) valIDAny(v []byte) (uint32, bool) {
	if len(v) < minValLen || v[0] != 'v' || v[9] != '.' {
		return 0, false
	}
	var id uint32
	if _, err := fmt.Sscanf(string(v[1:9]), "%08x", &id); err != nil {
		return 0, false
	}
	if string(V{ID: id, Len: len(v)}.Bytes()) != string(v) {
		return 0, false
	}
	return id, true
}

func genLife(seed uint64, g *gen, thorough bool) *Case {
	r := g.r
	c := &Case{Prop: "C18", Seed: seed, Scenario: "life"}
	c.Knobs = g.knobs(pickCmp(r))
	g.cmp = comparerByName(c.Knobs.Comparer).Compare
	c.Sched = g.sched()
	g.makeKeys(r.rng(3, 24))
	p := profile{ops: [2]int{3, 80}, maxMoves: 10, syncP: 0.1}
	p.wWrite, p.wGet, p.wIter, p.wTx, p.wCompact, p.wSnap = 70, 8, 2, 4, 4, 2
	c.Clients = [][]Op{g.program(p)}
	c.Life = []string{"lock", "ro-open", "setro", "closed", "race", "race", "ro-fs"}[r.intn(7)]
	if c.Life == "setro" && r.p(0.4) {
		// SetReadOnly while a flush or compaction is failing and retrying
		for i := r.rng(1, 2); i > 0; i-- {
			c.Faults = append(c.Faults, &simdisk.Fault{Kind: "err", Op: []string{simdisk.OpWrite, simdisk.OpSync, simdisk.OpCreate}[r.intn(3)], FT: int(storage.TypeTable), Nth: r.rng(1, 8), Count: r.rng(1, 8), Epoch: -1})
		}
		c.TableFaultsOnly = true
	}
	if c.Life == "race" {
		if c.Sched.Strategy == 0 && c.Sched.YieldP < 0.002 {
			c.Sched.YieldP = 0.02
		}
		nc := r.rng(2, 4)
		closer := r.intn(nc)
		for ci := 0; ci < nc; ci++ {
			var ops []Op
			for i := r.rng(2, 12); i > 0; i-- {
				switch x := r.intn(100); {
				case x < 40:
					ops = append(ops, Op{K: "put", Key: g.key(), Val: g.val(300)})
				case x < 70:
					ops = append(ops, Op{K: "get", Key: g.key()})
				case x < 80:
					ops = append(ops, Op{K: "snap", Key: g.key()})
				case x < 88:
					ops = append(ops, Op{K: "tx", Key: g.key(), Val: g.val(300), Commit: r.p(0.7)})
				case x < 93:
					ops = append(ops, Op{K: "compact"})
				default:
					ops = append(ops, Op{K: "yield"})
				}
			}
			if ci == closer {
				at := r.intn(len(ops) + 1)
				ops = append(ops[:at:at], append([]Op{{K: "close"}}, ops[at:]...)...)
			}
			c.Clients = append(c.Clients, ops)
		}
	}
	return c
}

// fsName is the name file storage gives a file (kept independent of the
// package's own naming function).
func fsName(fd storage.FileDesc) string {
	switch fd.Type {
	case storage.TypeManifest:
		return fmt.Sprintf("MANIFEST-%06d", fd.Num)
	case storage.TypeJournal:
		return fmt.Sprintf("%06d.log", fd.Num)
	case storage.TypeTable:
		return fmt.Sprintf("%06d.ldb", fd.Num)
	}
	return fmt.Sprintf("%06d.tmp", fd.Num)
}

func dirState(dir string) (map[string]string, error) {
	ents, err := os.ReadDir(dir)
	if err != nil {
		return nil, err
	}
	st := map[string]string{}
	for _, e := range ents {
		b, err := os.ReadFile(filepath.Join(dir, e.Name()))
		if err != nil {
			return nil, err
		}
		fi, _ := e.Info()
		st[e.Name()] = fmt.Sprintf("%d bytes, sha256 %x, mode %v", len(b), sha256.Sum256(b), fi.Mode())
	}
	return st, nil
}

// lifeROFS: read-only at the level of the real file storage (the only
// scenario that runs leveldb/storage's file_storage.go, against a scratch
// directory of the real file system, since that file has no seam below it).
// The settled image is laid out in a directory the way file storage does,
// together with what a crash in the middle of a manifest switch or an unclean
// shutdown leaves behind (pending CURRENT.<n>, CURRENT.bak, damaged or missing
// CURRENT, stray temp files); storage.OpenFile(dir, readOnly) + a read-only
// Open must serve all data and leave every directory entry byte-identical.
func (r *runner) lifeROFS() {
	r.closeDB()
	r.disk.NextEpoch(0, 0, false)
	simrt.SetEpoch(r.disk.Epoch + 1000)
	dir, err := os.MkdirTemp("", "verif-rofs-")
	if err != nil {
		r.probe("rofs-no-tmpdir")
		return
	}
	defer os.RemoveAll(dir)
	put := func(name string, data []byte) {
		if err := os.WriteFile(filepath.Join(dir, name), data, 0o644); err != nil {
			panic(err)
		}
	}
	for _, fd := range r.disk.ListFiles(storage.TypeAll) {
		data, _ := r.disk.Data(fd)
		put(fsName(fd), data)
	}
	meta := r.disk.Meta()
	cur := []byte(fsName(meta) + "\n")
	put("LOCK", nil)
	put("LOG", []byte("log\n"))
	rng := xr{r.c.Seed*2654435761 + 99}
	kind := int(rng.next() % 7)
	switch kind {
	case 0: // clean
		put("CURRENT", cur)
	case 1: // crash after the pending file was written, before the rename
		put("CURRENT", cur)
		put(fmt.Sprintf("CURRENT.%d", meta.Num), cur)
	case 2: // crash after CURRENT was moved away: only the pending file and the backup exist
		put(fmt.Sprintf("CURRENT.%d", meta.Num), cur)
		put("CURRENT.bak", cur)
	case 3: // a torn pending file next to a good CURRENT
		put("CURRENT", cur)
		put(fmt.Sprintf("CURRENT.%d", meta.Num+1), cur[:len(cur)/2])
	case 4: // a damaged CURRENT with a good backup
		put("CURRENT", []byte("MANIFEST-00"))
		put("CURRENT.bak", cur)
	case 5: // a pending file that points to a manifest that was never written
		put("CURRENT", cur)
		put(fmt.Sprintf("CURRENT.%d", meta.Num+5), []byte(fmt.Sprintf("MANIFEST-%06d\n", meta.Num+5)))
	case 6: // stray files
		put("CURRENT", cur)
		put("CURRENT.bak", cur)
		put("999999.tmp", []byte("temp"))
		put("notes.txt", []byte("not ours"))
	}
	before, err := dirState(dir)
	if err != nil {
		panic(err)
	}
	stor, err := storage.OpenFile(dir, true)
	if err != nil {
		r.viol("readonly", "readonly:fs-open-failed", fmt.Sprintf("read-only OpenFile failed (layout %d): %v", kind, err))
		return
	}
	o := r.knobs.Options()
	o.ReadOnly = true
	simrt.SetOp("Open")
	db, err := leveldb.Open(stor, o)
	simrt.SetOp("")
	simrt.Progress()
	if err != nil {
		stor.Close()
		r.viol("readonly", "readonly:open-failed", fmt.Sprintf("read-only Open on file storage failed (layout %d): %v", kind, err))
		return
	}
	r.db = db
	r.scanAll("scan")
	for _, k := range r.model.keys {
		if len(r.out.Viol) > 0 {
			break
		}
		r.doGet(&Op{K: "get", Key: k}, nil)
	}
	r.roProbes()
	simrt.Quiesce()
	simrt.IdleFor(31e9)
	simrt.Quiesce()
	r.db = nil
	db.Close()
	stor.Close()
	simrt.Progress()
	after, err := dirState(dir)
	if err != nil {
		panic(err)
	}
	var names []string
	for n := range before {
		names = append(names, n)
	}
	for n := range after {
		if _, ok := before[n]; !ok {
			names = append(names, n)
		}
	}
	sort.Strings(names)
	for _, n := range names {
		b, okb := before[n]
		a, oka := after[n]
		switch {
		case okb && !oka:
			r.viol("readonly-mutate", "readonly-mutate:fs:removed", fmt.Sprintf("the read-only open removed %s (layout %d)", n, kind))
		case !okb && oka:
			r.viol("readonly-mutate", "readonly-mutate:fs:created", fmt.Sprintf("the read-only open created %s (layout %d)", n, kind))
		case a != b:
			r.viol("readonly-mutate", "readonly-mutate:fs:modified", fmt.Sprintf("the read-only open changed %s (layout %d): %s -> %s", n, kind, b, a))
		default:
			continue
		}
		return
	}
	r.probe("life-ro-fs")
	r.out.Probes[fmt.Sprintf("life-ro-fs-layout-%d", kind)]++
	if !r.ensureOpen() && len(r.out.Viol) == 0 {
		r.viol("lock", "lock:not-released", "Open after the file-storage scenario failed")
	}
}

// liveTablesInDir decodes the manifest CURRENT points to and returns the
// numbers of the live tables.
func liveTablesInDir(dir string) (map[int64]bool, error) {
	cur, err := os.ReadFile(filepath.Join(dir, "CURRENT"))
	if err != nil {
		return nil, err
	}
	data, err := os.ReadFile(filepath.Join(dir, strings.TrimSpace(string(cur))))
	if err != nil {
		return nil, err
	}
	recs, _, _ := decode.Journal(data)
	live := map[int64]bool{}
	for _, rc := range recs {
		e, err := decode.ParseEdit(rc.Data)
		if err != nil {
			return nil, err
		}
		for _, t := range e.Deleted {
			delete(live, t.Num)
		}
		for _, t := range e.Added {
			live[t.Num] = true
		}
	}
	return live, nil
}

// fsRW: files are deleted when unneeded, also by the real file storage and
// also when they carry the legacy ".sst" name that file storage still accepts.
// The settled image is laid out in a scratch directory (a seeded subset of the
// tables under the old name), opened read-write through storage.OpenFile,
// every key is written again with its current value, the whole range is
// compacted; after background work has settled the directory holds no table
// that the manifest does not list, and the DB reopens with the same contents.
// (Like ro-fs this runs file_storage.go for real; it is not simulated.)
func (r *runner) fsRW(sel uint64) {
	r.closeDB()
	r.disk.NextEpoch(0, 0, false)
	simrt.SetEpoch(r.disk.Epoch + 1000)
	defer func() { r.pos = 1 << 30 }() // the run ends here
	dir, err := os.MkdirTemp("", "verif-rwfs-")
	if err != nil {
		return
	}
	defer os.RemoveAll(dir)
	x := xr{sel}
	// only live tables get the legacy name: they are what an older version
	// wrote and committed. (A table file that no manifest lists was written
	// by this code base, which never uses the old name; an image with a stale
	// ".sst" orphan whose number is handed out again is not one goleveldb
	// can leave behind.)
	liveNow := map[int64]bool{}
	if st := r.mon.current(); st != nil {
		for _, ts := range st.levels {
			for n := range ts {
				liveNow[n] = true
			}
		}
	}
	for _, fd := range r.disk.ListFiles(storage.TypeAll) {
		data, _ := r.disk.Data(fd)
		name := fsName(fd)
		if fd.Type == storage.TypeTable && liveNow[fd.Num] && x.next()%2 == 0 {
			name = fmt.Sprintf("%06d.sst", fd.Num)
		}
		if err := os.WriteFile(filepath.Join(dir, name), data, 0o644); err != nil {
			panic(err)
		}
	}
	os.WriteFile(filepath.Join(dir, "CURRENT"), []byte(fsName(r.disk.Meta())+"\n"), 0o644)
	for round := 0; round < 2; round++ {
		stor, err := storage.OpenFile(dir, false)
		if err != nil {
			r.viol("files-residue", "files-residue:fs:open-failed", fmt.Sprintf("OpenFile (round %d) failed: %v", round, err))
			return
		}
		db, err := leveldb.Open(stor, r.knobs.Options())
		if err != nil {
			stor.Close()
			detail := ""
			if live, e := liveTablesInDir(dir); e == nil {
				ents, _ := os.ReadDir(dir)
				var names []string
				for _, e := range ents {
					names = append(names, e.Name())
				}
				var nums []int
				for n := range live {
					nums = append(nums, int(n))
				}
				sort.Ints(nums)
				detail = fmt.Sprintf("; directory %v, tables listed by the manifest %v", names, nums)
			}
			r.viol("files-residue", "files-residue:fs:open-failed", fmt.Sprintf("Open on file storage (round %d) failed: %v%s", round, err, detail))
			return
		}
		r.db = db
		r.scanAll("scan")
		if round == 0 && len(r.out.Viol) == 0 {
			v := View{M: r.model, N: r.model.Len()}
			for _, k := range r.model.keys {
				ch := v.chain(k)
				if len(ch) == 1 && !ch[0].del {
					db.Put(k, ch[0].val.Bytes(), nil) // the same value again: the old entry becomes garbage
				}
			}
			db.CompactRange(util.Range{})
			simrt.Quiesce()
			simrt.IdleFor(301e9)
			simrt.Quiesce()
			simrt.IdleFor(301e9)
			simrt.Quiesce()
			r.scanAll("scan")
		}
		r.db = nil
		db.Close()
		stor.Close()
		simrt.Progress()
		if len(r.out.Viol) > 0 {
			return
		}
		live, err := liveTablesInDir(dir)
		if err != nil {
			r.viol("files-residue", "files-residue:fs:manifest", fmt.Sprintf("cannot decode the manifest in the directory: %v", err))
			return
		}
		ents, _ := os.ReadDir(dir)
		for _, e := range ents {
			var num int64
			var ext string
			if n, _ := fmt.Sscanf(e.Name(), "%06d.%s", &num, &ext); n == 2 && (ext == "ldb" || ext == "sst") && !live[num] {
				r.viol("files-residue", "files-residue:fs:extra:table", fmt.Sprintf("after compaction and settling (round %d) the directory still holds %s, which the manifest does not list", round, e.Name()))
				return
			}
		}
	}
	r.probe("fs-rw")
}
