package sim

import (
	"bytes"
	"errors"
	"fmt"
	"io"
	"sort"
	"time"

	"github.com/syndtr/goleveldb/leveldb/cache"
	"github.com/syndtr/goleveldb/leveldb/comparer"
	"github.com/syndtr/goleveldb/leveldb/filter"
	"github.com/syndtr/goleveldb/leveldb/journal"
	"github.com/syndtr/goleveldb/leveldb/opt"
	"github.com/syndtr/goleveldb/leveldb/storage"
	"github.com/syndtr/goleveldb/leveldb/table"
	"github.com/syndtr/goleveldb/leveldb/util"
	"verif/harness/decode"
)

// CompCase describes a component-level case (journal, table, memdb, cache).
type CompCase struct {
	Kind string `json:"kind"`
	// journal
	Lens     []int  `json:"lens,omitempty"`
	Flush    []bool `json:"flush,omitempty"`
	FailAt   int    `json:"fail_at,omitempty"`   // k-th underlying Write call fails (0 = none)
	FailKind string `json:"fail_kind,omitempty"` // err, short
	Budget   int    `json:"budget,omitempty"`    // number of damage positions to try
	All      bool   `json:"all,omitempty"`       // enumerate every position
	DSeed    uint64 `json:"dseed,omitempty"`
	Fill     int    `json:"fill,omitempty"`     // record contents: 0 pseudo-random, 1 zeros, 2 one constant byte (tag bytes aside)
	ResetAt  []int  `json:"reset_at,omitempty"` // after these records the Writer is Reset onto a fresh stream (earlier streams are checked intact)
	Reuse    bool   `json:"reuse,omitempty"`    // the Reader first reads the intact stream and is then Reset onto the stream under test
	// table
	Pairs     []Rec  `json:"pairs,omitempty"`
	BlockSize int    `json:"bs,omitempty"`
	Restart   int    `json:"ri,omitempty"`
	NoComp    bool   `json:"nocomp,omitempty"`
	FBits     int    `json:"fbits,omitempty"`
	FBase     int    `json:"fbase,omitempty"`
	UseCache  bool   `json:"cache,omitempty"`
	UsePool   bool   `json:"pool,omitempty"`
	NoStrict  bool   `json:"nostrict,omitempty"` // data blocks unverified: only index/meta/filter damage is tried
	Moves     []Move `json:"moves,omitempty"`
	Start     B      `json:"start,omitempty"`
	Limit     B      `json:"limit,omitempty"`
	HasS      bool   `json:"hs,omitempty"`
	HasL      bool   `json:"hl,omitempty"`
	// memdb / cache
	Prog [][]COp `json:"prog,omitempty"`
	Cap  int     `json:"cap,omitempty"`
}

// COp is one operation of a memdb/cache component program.
type COp struct {
	K     string `json:"op"`
	Key   B      `json:"k,omitempty"`
	Val   V      `json:"v,omitempty"`
	NS    uint64 `json:"ns,omitempty"`
	N     uint64 `json:"n,omitempty"`
	Size  int    `json:"size,omitempty"`
	Slot  int    `json:"slot,omitempty"`
	Moves []Move `json:"moves,omitempty"`
	Start B      `json:"start,omitempty"`
	Limit B      `json:"limit,omitempty"`
	HasS  bool   `json:"hs,omitempty"`
	HasL  bool   `json:"hl,omitempty"`
	Force bool   `json:"force,omitempty"`
}

func (c *CompCase) size() int {
	n := len(c.Lens)*4 + len(c.Pairs)*4 + len(c.Moves) + c.Budget/8
	for _, l := range c.Lens {
		n += l / 512
	}
	for _, p := range c.Pairs {
		n += p.Val.Len / 64
	}
	for _, pr := range c.Prog {
		n += 5 + len(pr)*4
		for _, o := range pr {
			n += len(o.Moves)
		}
	}
	return n
}

// ---------------------------------------------------------------- journal

type failWriter struct {
	buf    bytes.Buffer
	n      int
	failAt int
	kind   string
	failed bool
}

var errWriteFault = errors.New("simdisk: injected fault")

func (w *failWriter) Write(p []byte) (int, error) {
	w.n++
	if w.failAt > 0 && w.n == w.failAt {
		w.failed = true
		if w.kind == "short" {
			k := len(p) / 2
			w.buf.Write(p[:k])
			return k, errWriteFault
		}
		return 0, errWriteFault
	}
	w.buf.Write(p)
	return len(p), nil
}

func recBytes(i, n, fill int) []byte {
	b := make([]byte, n)
	x := uint64(i)*0x9e3779b97f4a7c15 + 12345
	for j := range b {
		x ^= x << 13
		x ^= x >> 7
		x ^= x << 17
		switch fill {
		case 0:
			b[j] = byte(x)
		case 2:
			b[j] = 0x5a
		}
	}
	if n >= 4 {
		b[0], b[1], b[2], b[3] = byte(i), byte(i>>8), byte(n), byte(n>>8)
	}
	return b
}

type dropCounter struct{ n int }

func (d *dropCounter) Drop(err error) { d.n++ }

// readJournal reads a journal like goleveldb's recovery does.
func readJournal(data []byte, strict bool) (recs [][]byte, err error, panicked string) {
	return readJournalReuse(nil, data, strict)
}

// readJournalReuse: like recovery, which uses one Reader for all journal
// files: the Reader first reads prelude completely (with the other strictness)
// and is then Reset onto data.
func readJournalReuse(prelude, data []byte, strict bool) (recs [][]byte, err error, panicked string) {
	defer func() {
		if r := recover(); r != nil {
			panicked = fmt.Sprint(r)
		}
	}()
	var jr *journal.Reader
	if prelude != nil {
		jr = journal.NewReader(bytes.NewReader(prelude), &dropCounter{}, !strict, !strict)
		for {
			rd, e := jr.Next()
			if e != nil {
				break
			}
			io.Copy(io.Discard, rd)
		}
		jr.Reset(bytes.NewReader(data), &dropCounter{}, strict, true)
	} else {
		jr = journal.NewReader(bytes.NewReader(data), &dropCounter{}, strict, true)
	}
	for {
		rd, e := jr.Next()
		if e == io.EOF {
			return recs, nil, ""
		}
		if e != nil {
			return recs, e, ""
		}
		var buf bytes.Buffer
		_, e = buf.ReadFrom(rd)
		if e == io.ErrUnexpectedEOF {
			// a record cut short by damage: dropped (tolerant mode)
			continue
		}
		if e != nil {
			return recs, e, ""
		}
		recs = append(recs, append([]byte(nil), buf.Bytes()...))
	}
}

func runJournal(c *Case, out *RunOut) {
	cc := c.Comp
	viol := func(finger, detail string) {
		if len(out.Viol) < 4 {
			out.Viol = append(out.Viol, Violation{Oracle: "journal", Finger: "journal:" + finger, Detail: detail})
		}
	}
	fw := &failWriter{failAt: cc.FailAt, kind: cc.FailKind}
	w := journal.NewWriter(fw)
	var orig [][]byte
	var acked []bool // flushed successfully
	werr := false
	pending := []int{}
	for i, l := range cc.Lens {
		rb := recBytes(i, l, cc.Fill)
		wr, err := w.Next()
		if err != nil {
			werr = true
			break
		}
		if _, err := wr.Write(rb); err != nil {
			werr = true
			break
		}
		orig = append(orig, rb)
		acked = append(acked, false)
		pending = append(pending, len(orig)-1)
		resetNow := false
		for _, ra := range cc.ResetAt {
			if ra == i && cc.FailAt == 0 {
				resetNow = true
			}
		}
		if resetNow {
			// hand the Writer a fresh stream; what it still buffers belongs
			// to the old one, which must read back exactly
			old, oldOrig := fw, orig
			fw = &failWriter{}
			if err := w.Reset(fw); err != nil {
				viol("reset-error", fmt.Sprintf("Writer.Reset returned %v", err))
				return
			}
			for _, strict := range []bool{true, false} {
				recs, err, pan := readJournal(old.buf.Bytes(), strict)
				if pan != "" || err != nil || len(recs) != len(oldOrig) {
					viol("reset-lost", fmt.Sprintf("the stream the Writer was Reset away from reads back %d of %d records (strict=%v, error %v %s)", len(recs), len(oldOrig), strict, err, pan))
					return
				}
				for k := range recs {
					if !bytes.Equal(recs[k], oldOrig[k]) {
						viol("reset-lost", fmt.Sprintf("record %d of the stream the Writer was Reset away from differs", k))
						return
					}
				}
			}
			out.Probes["journal-writer-reset"]++
			orig, acked, pending = nil, nil, pending[:0]
			continue
		}
		if i < len(cc.Flush) && cc.Flush[i] {
			if err := w.Flush(); err != nil {
				werr = true
				break
			}
			for _, p := range pending {
				acked[p] = true
			}
			pending = pending[:0]
		}
	}
	if !werr {
		if err := w.Close(); err != nil {
			werr = true
		} else {
			for _, p := range pending {
				acked[p] = true
			}
		}
	}
	data := append([]byte(nil), fw.buf.Bytes()...)
	out.Probes["journal-bytes"] += len(data)
	out.Probes["journal-records"] += len(orig)
	if werr {
		out.Probes["journal-write-fault"]++
		out.Fired["err/write/journal"]++
	}
	if fw.failed != werr && fw.failed {
		// the fault may hit the final Close/flush path as well; either way an
		// error must have been reported
		viol("write-error-swallowed", "the underlying writer failed but no journal call reported an error")
		return
	}
	// where each original record lives (independent decoder)
	drecs, _, _ := decode.Journal(data)
	span := map[int][2]int{} // orig index -> [start,end)
	di := 0
	for i := range orig {
		if di < len(drecs) && bytes.Equal(drecs[di].Data, orig[i]) {
			span[i] = [2]int{drecs[di].Start, drecs[di].End}
			di++
		}
	}
	if !werr && len(span) != len(orig) {
		viol("format", fmt.Sprintf("independent decoder found %d of %d records in the intact journal", len(span), len(orig)))
		return
	}
	byteDamage := false
	intact := data
	cut := -1 // >= 0 while truncations are examined: the stream ends here
	check := func(what string, d []byte, strict bool, damaged map[int]bool, anyDamage bool) bool {
		var prelude []byte
		if cc.Reuse {
			prelude = intact
			what += " (Reader reused through Reset)"
		}
		recs, err, pan := readJournalReuse(prelude, d, strict)
		if pan != "" {
			viol("panic", fmt.Sprintf("%s: reader panicked: %s", what, pan))
			return false
		}
		// The yielded records must map, in order, onto written records such
		// that every record that must be kept is covered. Records can be
		// identical (e.g. empty), so search instead of matching greedily.
		mustKeep := func(i int) bool {
			_, ok := span[i]
			return ok && !damaged[i]
		}
		match := func(requireKeep bool) (bool, map[int]bool) {
			n, m := len(orig), len(recs)
			// reach[i][y]: originals < i decided, yielded < y matched
			reach := make([][]bool, n+1)
			for i := range reach {
				reach[i] = make([]bool, m+1)
			}
			reach[0][0] = true
			for i := 0; i < n; i++ {
				for y := 0; y <= m; y++ {
					if !reach[i][y] {
						continue
					}
					if !(requireKeep && mustKeep(i)) {
						reach[i+1][y] = true
					}
					if y < m && bytes.Equal(orig[i], recs[y]) {
						reach[i+1][y+1] = true
					}
				}
			}
			if !reach[n][m] {
				return false, nil
			}
			got := map[int]bool{}
			y := m
			for i := n; i > 0; i-- {
				if y > 0 && reach[i-1][y-1] && bytes.Equal(orig[i-1], recs[y-1]) {
					got[i-1] = true
					y--
				}
			}
			return true, got
		}
		okSub, got := match(false)
		if !okSub {
			viol("invented", fmt.Sprintf("%s (strict=%v): the %d yielded records are not a subsequence of the %d written ones", what, strict, len(recs), len(orig)))
			return false
		}
		if cut >= 0 {
			// a record that is not completely in the stream cannot be yielded
			// from the stream: the reader must have completed it from bytes
			// beyond the data it was given (e.g. a stale buffer)
			idx := make([]int, 0, len(got))
			for i := range got {
				idx = append(idx, i)
			}
			sort.Ints(idx)
			for _, i := range idx {
				sp, ok := span[i]
				if !ok || sp[1] <= cut {
					continue
				}
				// identical records elsewhere in the stream may explain it
				explained := false
				for j := range orig {
					if sj, ok := span[j]; ok && sj[1] <= cut && !got[j] && bytes.Equal(orig[j], orig[i]) {
						explained = true
						break
					}
				}
				if !explained {
					viol("yielded-beyond-cut", fmt.Sprintf("%s (strict=%v): record %d occupies [%d,%d) but the stream ends at %d: it was completed from bytes that are not in the stream", what, strict, i, sp[0], sp[1], cut))
					return false
				}
			}
		}
		if okKeep, g2 := match(true); okKeep {
			got = g2
		} else if !strict {
			if err != nil {
				viol("tolerant-error", fmt.Sprintf("%s: tolerant reader returned %v", what, err))
				return false
			}
			for i := range orig {
				if mustKeep(i) && !got[i] {
					viol("lost", fmt.Sprintf("%s: record %d [%d,%d) touches no damaged block but was not yielded", what, i, span[i][0], span[i][1]))
					return false
				}
			}
			viol("lost", fmt.Sprintf("%s: a record that touches no damaged block was not yielded", what))
			return false
		}
		if strict && byteDamage && err == nil {
			// damage that breaks the framing must stop a strict reader; it may
			// only go unreported if the stream still decodes completely
			// (damage in block padding)
			dr, _, clean := decode.Journal(d)
			full := clean && len(dr) == len(span)
			if full {
				i := 0
				for oi := range orig {
					if _, ok := span[oi]; ok {
						if !bytes.Equal(dr[i].Data, orig[oi]) {
							full = false
							break
						}
						i++
					}
				}
			}
			if !full {
				viol("strict-silent", fmt.Sprintf("%s: the framing is broken but the strict reader ended without a corruption error (yielded %d records)", what, len(recs)))
				return false
			}
		}
		if strict {
			if err == nil && anyDamage {
				// legal only if the damage is invisible to the format
				// (padding): then everything must have been read
				for i := range orig {
					if _, ok := span[i]; ok && !got[i] && !damaged[i] {
						viol("strict-silent-loss", fmt.Sprintf("%s: strict reader ended without error but record %d is missing", what, i))
						return false
					}
				}
			}
			return true
		}
		if err != nil {
			viol("tolerant-error", fmt.Sprintf("%s: tolerant reader returned %v", what, err))
			return false
		}
		for i := range orig {
			if _, ok := span[i]; ok && !damaged[i] && !got[i] {
				viol("lost", fmt.Sprintf("%s: record %d [%d,%d) touches no damaged block but was not yielded", what, i, span[i][0], span[i][1]))
				return false
			}
		}
		return true
	}
	touch := func(lo, hi int) map[int]bool {
		// records touching any 32 KiB block intersecting [lo,hi)
		m := map[int]bool{}
		b0, b1 := lo/decode.BlockSize, (hi-1)/decode.BlockSize
		for i, sp := range span {
			r0, r1 := sp[0]/decode.BlockSize, (sp[1]-1)/decode.BlockSize
			if r0 <= b1 && r1 >= b0 {
				m[i] = true
			}
		}
		return m
	}
	// (a) intact (or whatever reached the file before the write fault)
	none := map[int]bool{}
	if werr {
		// records not flushed before the fault may be missing or torn
		for i := range orig {
			if !acked[i] {
				none[i] = true
			}
		}
		for i := range orig {
			if _, ok := span[i]; !ok {
				none[i] = true
				if acked[i] {
					viol("acked-lost", fmt.Sprintf("record %d was flushed successfully before the write fault but is not in the file", i))
					return
				}
			}
		}
	}
	if !check("intact", data, false, none, werr) || !check("intact", data, true, none, werr) {
		return
	}
	out.OpsDone++
	if werr || len(data) == 0 {
		return
	}
	// (b) truncation offsets
	rng := xr{cc.DSeed}
	var offs []int
	if cc.All {
		for t := 0; t < len(data); t++ {
			offs = append(offs, t)
		}
	} else {
		seen := map[int]bool{}
		add := func(t int) {
			if t >= 0 && t < len(data) && !seen[t] {
				seen[t] = true
				offs = append(offs, t)
			}
		}
		for _, sp := range span {
			for d := -8; d <= 8; d++ {
				add(sp[0] + d)
				add(sp[1] + d)
			}
		}
		for b := decode.BlockSize; b < len(data); b += decode.BlockSize {
			for d := -9; d <= 9; d++ {
				add(b + d)
			}
		}
		for i := 0; i < cc.Budget; i++ {
			add(int(rng.next() % uint64(len(data))))
		}
		sort.Ints(offs)
	}
	for _, t := range offs {
		cut = t
		dm := touch(t, len(data))
		// records that end at or before t in earlier blocks must be kept;
		// those in the cut block may go
		if !check(fmt.Sprintf("truncated at %d of %d", t, len(data)), data[:t], false, dm, true) {
			return
		}
		if !check(fmt.Sprintf("truncated at %d of %d", t, len(data)), data[:t], true, dm, true) {
			return
		}
		out.OpsDone++
		out.Fired["truncate/journal"]++
	}
	cut = -1
	// (c) byte damage
	byteDamage = true
	// every byte of the first chunk headers (checksum, length, type)
	{
		var hdrs []int
		for _, sp := range span {
			hdrs = append(hdrs, sp[0])
			for b := (sp[0]/decode.BlockSize + 1) * decode.BlockSize; b < sp[1]; b += decode.BlockSize {
				hdrs = append(hdrs, b) // continuation chunk at the block start
			}
		}
		sort.Ints(hdrs)
		if len(hdrs) > 12 {
			hdrs = hdrs[:12]
		}
		for _, h := range hdrs {
			for off := 0; off < 7 && h+off < len(data); off++ {
				for _, mask := range []byte{0x80, 0x01} {
					d := append([]byte(nil), data...)
					d[h+off] ^= mask
					dm := touch(h+off, h+off+1)
					what := fmt.Sprintf("chunk header byte %d of the chunk at %d altered", off, h)
					if !check(what, d, false, dm, true) || !check(what, d, true, dm, true) {
						return
					}
					out.OpsDone++
					out.Fired["bitrot-header/journal"]++
				}
			}
		}
	}
	n := cc.Budget
	if cc.All && len(data) <= 16384 {
		n = len(data)
	}
	for i := 0; i < n; i++ {
		pos := i
		if !(cc.All && len(data) <= 16384) {
			pos = int(rng.next() % uint64(len(data)))
		}
		d := append([]byte(nil), data...)
		ln := 1
		switch rng.next() % 4 {
		case 0:
			d[pos] ^= byte(1 + rng.next()%255)
		case 1:
			d[pos] = 0
		case 2: // zeroed range
			ln = int(1 + rng.next()%64)
			for j := pos; j < pos+ln && j < len(d); j++ {
				d[j] = 0
			}
		default: // garbage range
			ln = int(1 + rng.next()%16)
			for j := pos; j < pos+ln && j < len(d); j++ {
				d[j] = byte(rng.next())
			}
		}
		hi := pos + ln
		if hi > len(d) {
			hi = len(d)
		}
		dm := touch(pos, hi)
		what := fmt.Sprintf("damage at [%d,%d) of %d", pos, hi, len(d))
		if !check(what, d, false, dm, true) || !check(what, d, true, dm, true) {
			return
		}
		out.OpsDone++
		out.Fired["bitrot/journal"]++
	}
}

// ---------------------------------------------------------------- table

type memRA struct{ b []byte }

func (m memRA) ReadAt(p []byte, off int64) (int, error) {
	if off < 0 || off > int64(len(m.b)) {
		return 0, io.EOF
	}
	n := copy(p, m.b[off:])
	if n < len(p) {
		return n, io.EOF
	}
	return n, nil
}

func tableOptions(cc *CompCase) *opt.Options {
	o := &opt.Options{BlockSize: cc.BlockSize, BlockRestartInterval: cc.Restart, FilterBaseLg: cc.FBase, Comparer: comparer.DefaultComparer}
	if cc.NoComp {
		o.Compression = opt.NoCompression
	}
	if cc.FBits > 0 {
		o.Filter = filter.NewBloomFilter(cc.FBits)
	}
	if cc.NoStrict {
		o.Strict = opt.NoStrict
	}
	return o
}

func openTable(cc *CompCase, data []byte) (*table.Reader, *cache.Cache, error) {
	o := tableOptions(cc)
	var ns *cache.NamespaceGetter
	var ch *cache.Cache
	if cc.UseCache {
		ch = cache.NewCache(cache.NewLRU(64 << 10))
		ns = &cache.NamespaceGetter{Cache: ch, NS: 1}
	}
	var bp *util.BufferPool
	if cc.UsePool {
		bp = util.NewBufferPool(o.GetBlockSize() + 5)
	}
	tr, err := table.NewReader(memRA{data}, int64(len(data)), storage.FileDesc{Type: storage.TypeTable, Num: 1}, ns, bp, o)
	return tr, ch, err
}

func runTable(c *Case, out *RunOut) {
	cc := c.Comp
	viol := func(finger, detail string) {
		if len(out.Viol) < 4 {
			out.Viol = append(out.Viol, Violation{Oracle: "table", Finger: "table:" + finger, Detail: detail})
		}
	}
	o := tableOptions(cc)
	var buf bytes.Buffer
	var bp *util.BufferPool
	if cc.UsePool {
		bp = util.NewBufferPool(o.GetBlockSize() + 5)
	}
	tw := table.NewWriter(&buf, o, bp, 0)
	vals := map[string][]byte{}
	var keys [][]byte
	for _, p := range cc.Pairs {
		v := p.Val.Bytes()
		if p.Val.Len == 0 {
			v = []byte{}
		}
		if err := tw.Append(p.Key, v); err != nil {
			viol("append", fmt.Sprintf("Append(%q) failed: %v", []byte(p.Key), err))
			return
		}
		vals[string(p.Key)] = v
		keys = append(keys, p.Key)
	}
	if err := tw.Close(); err != nil {
		viol("close", fmt.Sprintf("Close failed: %v", err))
		return
	}
	data := append([]byte(nil), buf.Bytes()...)
	out.Probes["table-bytes"] += len(data)
	out.Probes["table-entries"] += len(keys)
	dt, derr := decode.ParseTable(data)
	if derr != nil {
		viol("format", fmt.Sprintf("independent decoder rejects the table: %v", derr))
		return
	}
	if len(dt.Entries) != len(keys) {
		viol("format", fmt.Sprintf("independent decoder finds %d entries, wrote %d", len(dt.Entries), len(keys)))
		return
	}
	out.Probes["table-blocks"] += len(dt.DataBlocks)

	// ---- intact round trip
	tr, ch, err := openTable(cc, data)
	if err != nil {
		viol("open", fmt.Sprintf("NewReader failed on an intact table: %v", err))
		return
	}
	m := NewModel(bytes.Compare)
	var recs []Rec
	for _, p := range cc.Pairs {
		recs = append(recs, p)
	}
	m.Append(recs, stYes, "table")
	view := View{M: m, N: 1}
	probeKeys := append([][]byte(nil), keys...)
	for _, k := range keys {
		probeKeys = append(probeKeys, append(append([]byte(nil), k...), 0))
		if len(k) > 0 {
			probeKeys = append(probeKeys, k[:len(k)-1])
		}
	}
	probeKeys = append(probeKeys, []byte{}, []byte{0xff, 0xff, 0xff, 0xff})
	lastOff := int64(-1)
	sorted := append([][]byte(nil), probeKeys...)
	sort.Slice(sorted, func(i, j int) bool { return bytes.Compare(sorted[i], sorted[j]) < 0 })
	for _, k := range sorted {
		off, err := tr.OffsetOf(k)
		if err != nil {
			viol("offsetof", fmt.Sprintf("OffsetOf(%q) failed: %v", k, err))
			return
		}
		if off < lastOff {
			viol("offsetof", fmt.Sprintf("OffsetOf decreased from %d to %d at key %q", lastOff, off, k))
			return
		}
		lastOff = off
	}
	for _, k := range probeKeys {
		v, err := tr.Get(k, nil)
		want, ok := vals[string(k)]
		switch {
		case ok && (err != nil || !bytes.Equal(v, want)):
			viol("get", fmt.Sprintf("Get(%q) = %s, %v; want the stored value", k, descVal(err == nil, v), err))
			return
		case !ok && err != table.ErrNotFound:
			viol("get", fmt.Sprintf("Get(%q) of an absent key = %s, %v", k, descVal(err == nil, v), err))
			return
		}
		if ok {
			// a lookup through the filter never hides a stored key
			fk, fv, ferr := tr.Find(k, true, nil)
			if ferr != nil || !bytes.Equal(fk, k) || !bytes.Equal(fv, want) {
				viol("find-filtered", fmt.Sprintf("Find(%q, filtered) = %q, %v; the key is stored", k, fk, ferr))
				return
			}
			if fk, ferr := tr.FindKey(k, true, nil); ferr != nil || !bytes.Equal(fk, k) {
				viol("find-filtered", fmt.Sprintf("FindKey(%q, filtered) = %q, %v; the key is stored", k, fk, ferr))
				return
			}
		} else if fk, _, ferr := tr.Find(k, true, nil); ferr == nil && bytes.Compare(fk, k) < 0 {
			viol("find-filtered", fmt.Sprintf("Find(%q, filtered) returned the smaller key %q", k, fk))
			return
		}
		rk, rv, err := tr.Find(k, false, nil)
		i := sort.Search(len(keys), func(i int) bool { return bytes.Compare(keys[i], k) >= 0 })
		if i == len(keys) {
			if err != table.ErrNotFound {
				viol("find", fmt.Sprintf("Find(%q) past the end = %q, %v", k, rk, err))
				return
			}
		} else if err != nil || !bytes.Equal(rk, keys[i]) || !bytes.Equal(rv, vals[string(keys[i])]) {
			viol("find", fmt.Sprintf("Find(%q) = %q, %v; want %q", k, rk, err, keys[i]))
			return
		}
		out.OpsDone++
	}
	// iteration with the reference cursor
	var rg *util.Range
	if cc.HasS || cc.HasL {
		rg = &util.Range{}
		if cc.HasS {
			rg.Start = append([]byte{}, cc.Start...)
		}
		if cc.HasL {
			rg.Limit = append([]byte{}, cc.Limit...)
		}
	}
	it := tr.NewIterator(rg, nil)
	cur := NewCursor(view, cc.Start, cc.Limit, cc.HasS, cc.HasL)
	for _, mv := range cc.Moves {
		var ok bool
		switch mv.K {
		case "first":
			ok = it.First()
		case "last":
			ok = it.Last()
		case "next":
			ok = it.Next()
		case "prev":
			ok = it.Prev()
		case "seek":
			ok = it.Seek(mv.Key)
		}
		var msg string
		if ok {
			msg = cur.Step(mv, true, it.Key(), it.Value())
		} else {
			if err := it.Error(); err != nil {
				viol("iter", fmt.Sprintf("iterator error on an intact table: %v", err))
				return
			}
			msg = cur.Step(mv, false, nil, nil)
		}
		if msg != "" {
			viol("iter", "intact table: "+msg)
			return
		}
		out.OpsDone++
	}
	it.Release()
	tr.Release()
	if ch != nil {
		ch.Close(true)
	}

	// ---- single byte alterations inside checksummed blocks
	var regions [][2]int
	if !cc.NoStrict {
		// without StrictBlockChecksum data blocks are not verified by design;
		// index, meta-index and filter blocks always are
		for _, b := range dt.DataBlocks {
			regions = append(regions, [2]int{b.Off, b.Off + b.Len + 5})
		}
	}
	regions = append(regions, [2]int{dt.Index.Off, dt.Index.Off + dt.Index.Len + 5}, [2]int{dt.MetaIndex.Off, dt.MetaIndex.Off + dt.MetaIndex.Len + 5})
	if dt.Filter != nil {
		regions = append(regions, [2]int{dt.Filter.Off, dt.Filter.Off + dt.Filter.Len + 5})
	}
	var positions []int
	for _, r := range regions {
		for p := r[0]; p < r[1] && p < len(data)-48; p++ {
			positions = append(positions, p)
		}
	}
	rng := xr{cc.DSeed}
	n := cc.Budget
	if cc.All {
		n = len(positions)
	}
	for i := 0; i < n && len(positions) > 0; i++ {
		pos := positions[i%len(positions)]
		if !cc.All {
			pos = positions[int(rng.next()%uint64(len(positions)))]
		}
		d := append([]byte(nil), data...)
		d[pos] ^= byte(1 + rng.next()%255)
		if msg := readDamagedTable(cc, d, keys, vals); msg != "" {
			viol(msg[:indexOrLen(msg, ':')], fmt.Sprintf("byte %d of %d altered: %s", pos, len(d), msg))
			return
		}
		out.OpsDone++
		out.Fired["bitrot/table"]++
	}
}

func indexOrLen(s string, c byte) int {
	for i := 0; i < len(s); i++ {
		if s[i] == c {
			return i
		}
	}
	return len(s)
}

// readDamagedTable: every result is an original pair or an error; never a
// panic, never a hang (a panic inside a cache load callback can leave a lock
// held: the reads run under a watchdog).
func readDamagedTable(cc *CompCase, d []byte, keys [][]byte, vals map[string][]byte) string {
	res := make(chan string, 1)
	go func() {
		var tr *table.Reader
		var ch *cache.Cache
		msg := func() (msg string) {
			defer func() {
				if r := recover(); r != nil {
					msg = fmt.Sprintf("panic: reader panicked on damaged table: %v", r)
				}
			}()
			var err error
			tr, ch, err = openTable(cc, d)
			if err != nil {
				tr = nil
				return ""
			}
			return readDamagedTableBody(tr, keys, vals)
		}()
		res <- msg
		// cleanup may block for ever after a panic left a lock held
		if tr != nil {
			tr.Release()
		}
		if ch != nil {
			ch.Close(true)
		}
	}()
	select {
	case msg := <-res:
		return msg
	case <-time.After(120 * time.Second):
		return "hang: a read of the damaged table did not return within 120 s"
	}
}

func readDamagedTableBody(tr *table.Reader, keys [][]byte, vals map[string][]byte) (msg string) {
	{
		for _, k := range keys {
			v, err := tr.Get(k, nil)
			if err == nil && !bytes.Equal(v, vals[string(k)]) {
				return fmt.Sprintf("wrong-value: Get(%q) returned %s instead of the stored value or an error", k, descVal(true, v))
			}
			if err == table.ErrNotFound {
				return fmt.Sprintf("hidden: Get(%q) reports not-found for a stored key instead of the pair or a corruption error", k)
			}
			// the same through the filter (a damaged filter block must be
			// ignored or reported, never believed)
			fk, fv, ferr := tr.Find(k, true, nil)
			if ferr == table.ErrNotFound {
				return fmt.Sprintf("hidden: Find(%q, filtered) reports not-found for a stored key instead of the pair or a corruption error", k)
			}
			if ferr == nil && (!bytes.Equal(fk, k) || !bytes.Equal(fv, vals[string(k)])) {
				return fmt.Sprintf("wrong-value: Find(%q, filtered) returned %q instead of the stored pair or an error", k, fk)
			}
		}
		it := tr.NewIterator(nil, nil)
		defer it.Release()
		var prev []byte
		n := 0
		for ok := it.First(); ok; ok = it.Next() {
			k := it.Key()
			want, known := vals[string(k)]
			if !known {
				return fmt.Sprintf("invented: iteration yielded key %q that was never stored", k)
			}
			if !bytes.Equal(it.Value(), want) {
				return fmt.Sprintf("misattributed: iteration yielded key %q with %s", k, descVal(true, it.Value()))
			}
			if n > 0 && bytes.Compare(prev, k) >= 0 {
				return fmt.Sprintf("order: iteration yielded %q after %q", k, prev)
			}
			prev = append(prev[:0], k...)
			n++
		}
		return ""
	}
}

// ---------------------------------------------------------------- generators

func genComponent(prop string, seed uint64, g *gen, thorough bool) *Case {
	r := g.r
	c := &Case{Prop: prop, Seed: seed, Scenario: "component", Comp: &CompCase{}}
	cc := c.Comp
	cc.DSeed = r.u64()
	switch prop {
	case "C12":
		cc.Kind = "journal"
		n := r.rng(1, 24)
		total := 0
		for i := 0; i < n; i++ {
			var l int
			switch x := r.intn(100); {
			case x < 10:
				l = 0
			case x < 50:
				l = r.rng(1, 200)
			case x < 70:
				l = r.rng(200, 5000)
			case x < 85:
				// leave 0..7 bytes at the end of the current block
				used := (total + 7) % decode.BlockSize
				l = decode.BlockSize - used - 7 - r.rng(0, 7)
				if l < 0 {
					l = r.rng(0, 50)
				}
			case x < 95:
				l = r.rng(20000, 40000)
			default:
				l = r.rng(60000, 100000)
			}
			if total+l > 200000 {
				l = r.rng(0, 100)
			}
			total += l + 7*(1+l/decode.BlockSize)
			cc.Lens = append(cc.Lens, l)
			cc.Flush = append(cc.Flush, r.p(0.4))
		}
		if r.p(0.15) {
			cc.FailAt = r.rng(1, 12)
			cc.FailKind = []string{"err", "short"}[r.intn(2)]
		}
		cc.Fill = r.pick(0, 0, 0, 1, 2)
		cc.Reuse = r.p(0.4)
		if cc.FailAt == 0 && r.p(0.3) {
			for i := r.rng(1, 3); i > 0 && n > 1; i-- {
				cc.ResetAt = append(cc.ResetAt, r.intn(n-1))
			}
		}
		cc.Budget = 48
		if thorough {
			cc.Budget = 512
			cc.All = total <= 80000 && r.p(0.3)
		} else {
			cc.All = total <= 2000
		}
	case "C13":
		cc.Kind = "table"
		g.makeKeys(r.rng(0, 200))
		if r.p(0.1) {
			g.keys = g.keys[:r.intn(2)%(len(g.keys)+1)]
		}
		sort.Slice(g.keys, func(i, j int) bool { return bytes.Compare(g.keys[i], g.keys[j]) < 0 })
		cc.BlockSize = r.pick(64, 128, 256, 1024, 4096)
		g.bs, g.wb = cc.BlockSize, 1024
		for _, k := range g.keys {
			v := g.val(3000)
			if r.p(0.1) {
				v.Len = 0
			}
			cc.Pairs = append(cc.Pairs, Rec{Key: k, Val: v})
		}
		cc.Restart = r.pick(1, 2, 3, 16, 32)
		cc.NoComp = r.p(0.5)
		if r.p(0.6) {
			cc.FBits = r.pick(1, 4, 10, 64)
			cc.FBase = r.pick(0, 4, 6, 11, 14)
		}
		cc.UseCache = r.p(0.5)
		cc.UsePool = r.p(0.5)
		cc.NoStrict = r.p(0.2)
		if len(g.keys) > 0 {
			op := Op{}
			if r.p(0.5) {
				g.cmp = bytes.Compare
				g.rangeOf(&op)
				cc.Start, cc.Limit, cc.HasS, cc.HasL = op.Start, op.Limit, op.HasS, op.HasL
			}
			cc.Moves = g.moves(r.rng(5, 150))
		} else {
			cc.Moves = []Move{{K: "first"}, {K: "last"}, {K: "next"}, {K: "prev"}, {K: "seek", Key: B("a")}}
		}
		cc.Budget = 40
		if thorough {
			cc.Budget = 400
			cc.All = r.p(0.2)
		}
	case "C14":
		return genMemdb(seed, g, c, thorough)
	case "C17":
		return genCache(seed, g, c, thorough)
	}
	return c
}
