package sim

import (
	"bufio"
	"encoding/json"
	"fmt"
	"os"
	"os/exec"
	"path/filepath"
	"regexp"
	"runtime"
	"sort"
	"strings"
	"sync"
	"testing"
	"time"

	"verif/harness/simdisk"
)

const verifDir = "/verif"

// accepted oracles per property: a run for property X reports only X's
// oracles; anything else that trips is a NOTE (DESIGN.md §3).
var accepted = map[string][]string{
	"C01": {"get", "scan", "write-err", "compact-err", "open", "close-err", "panic", "txget", "tx-open", "tx-commit"},
	"C02": {"iter", "snapiter", "txiter", "panic"},
	"C03": {"snapget", "snapiter", "iter", "txiter", "snap", "snap-unstable", "panic"},
	"C04": {"open", "scan", "get", "iter", "snapget", "snapiter", "txget", "txiter", "write-err", "compact-err", "panic", "hang", "tx-open", "tx-commit"},
	"C05": {"lin", "monotonic", "txiter", "snap", "panic"},
	"C06": {"lsm", "panic"},
	"C07": {"remove-live", "read-removed", "files-residue", "space", "iter", "panic"},
	"C08": {"get", "scan", "iter", "snapget", "snapiter", "txget", "txiter", "open", "panic"},
	"C09": {"hang", "close-twice", "panic"},
	"C10": {"wgroup", "lin", "arg-modified", "hang", "panic"},
	"C11": {"txget", "txiter", "get", "scan", "iter", "open", "snap", "files-residue", "tx-open", "tx-commit", "write-err", "lin", "hang", "panic"},
	"C12": {"journal", "panic"},
	"C13": {"table", "panic"},
	"C14": {"memdb", "panic", "hang"},
	"C16": {"get", "scan", "iter", "snapget", "snapiter", "recover", "panic"},
	"C17": {"cache", "panic", "hang"},
	"C18": {"lock", "readonly-mutate", "readonly", "closed", "released", "get", "scan", "hang", "panic"},
	"C19": {"recover", "scan", "get", "iter", "lsm", "panic", "hang"},
	// wgroup under C20: a write acknowledged before its records are in the
	// journal is a batch the DB still references after Write has returned; a
	// journal record no writer passed in is stored data the callers did not write
	"C20": {"get", "scan", "iter", "snapget", "snapiter", "txget", "txiter", "arg-modified", "wgroup", "panic"},
}

func accepts(prop, oracle string) bool {
	for _, o := range accepted[prop] {
		if o == oracle {
			return true
		}
	}
	return false
}

// controlCase returns the fault-free / feature-free twin of a case used to
// attribute a violation to the property under test, or nil.
func controlCase(c *Case) *Case {
	switch c.Prop {
	case "C04", "C08":
		if len(c.Faults) == 0 && !c.Rot {
			return nil
		}
		n := c.Clone()
		n.Faults = nil
		for ci := range n.Clients {
			for oi := range n.Clients[ci] {
				if n.Clients[ci][oi].K == "rot" {
					n.Clients[ci][oi].Slot = 0 // reopen without damage
				}
			}
		}
		return n
	case "C16":
		n := c.Clone()
		n.Knobs.FilterBits, n.Knobs.AltFilterBits = 0, nil
		for ci := range n.Clients {
			for oi := range n.Clients[ci] {
				if k := n.Clients[ci][oi].Knob; k != nil {
					k.FilterBits, k.AltFilterBits = 0, nil
				}
			}
		}
		return n
	case "C20":
		if c.Scenario == "conc" {
			return nil // concurrent cases do no scribbling a twin could omit
		}
		n := c.Clone()
		for ci := range n.Clients {
			for oi := range n.Clients[ci] {
				n.Clients[ci][oi].Scrib = false
				for bi := range n.Clients[ci][oi].Body {
					n.Clients[ci][oi].Body[bi].Scrib = false
				}
			}
		}
		return n
	}
	return nil
}

// Finding is a violation of the property under test, minimised.
type Finding struct {
	Seed   uint64 `json:"seed"`
	Oracle string `json:"oracle"`
	Finger string `json:"finger"`
	Detail string `json:"detail"`
	Replay string `json:"replay"`
	Hash   uint64 `json:"hash"`
	Runs   int    `json:"shrink_runs"`
	Size0  int    `json:"size_before"`
	Size1  int    `json:"size_after"`
}

// ReplayFile is the on-disk replay format.
type ReplayFile struct {
	Version int    `json:"version"`
	Prop    string `json:"property"`
	Oracle  string `json:"oracle"`
	Finger  string `json:"fingerprint"`
	Detail  string `json:"detail"`
	Hash    uint64 `json:"event_log_hash"`
	Case    *Case  `json:"case"`
}

// WorkerOut is what one worker process reports.
type WorkerOut struct {
	Runs       int               `json:"runs"`
	NonTrivial int               `json:"nontrivial"`
	Hashes     []uint64          `json:"hashes"`
	SeedHash   map[string]uint64 `json:"seed_hash"`
	Steps      int64             `json:"steps"`
	Decisions  int64             `json:"decisions"`
	Switches   int64             `json:"switches"`
	SimMs      int64             `json:"sim_ms"`
	Events     int64             `json:"events"`
	Fired      map[string]int    `json:"fired"`
	Probes     map[string]int    `json:"probes"`
	Shapes     map[string]int    `json:"shapes"`
	PairsMax   int               `json:"pairs_max"`
	PairsSum   int64             `json:"pairs_sum"`
	StepLimit  int               `json:"step_limit"`
	Notes      map[string]int    `json:"notes"`
	Findings   []Finding         `json:"findings"`
	Samples    []json.RawMessage `json:"samples"`
	Next       int               `json:"next"`
	Done       bool              `json:"done"`
	WallS      float64           `json:"wall_s"`
}

type workerJob struct {
	Prop     string   `json:"prop"`
	Thorough bool     `json:"thorough"`
	Base     uint64   `json:"base"`
	Start    int      `json:"start"`
	Stride   int      `json:"stride"`
	MaxRuns  int      `json:"max_runs"`
	Deadline int64    `json:"deadline_unix_ms"`
	Out      string   `json:"out"`
	Known    []string `json:"known"`
	Seeds    []uint64 `json:"seeds,omitempty"` // explicit seeds (determinism re-runs)
}

// attribute filters a run's violations down to those of the property under
// test, using the control twin where the oracle is shared with other properties.
func attribute(t *testing.T, c *Case, out *RunOut, notes map[string]int) []Violation {
	var mine []Violation
	for _, v := range out.Viol {
		if accepts(c.Prop, v.Oracle) {
			mine = append(mine, v)
		} else {
			notes["other-property:"+v.Oracle]++
		}
	}
	if len(mine) == 0 {
		return nil
	}
	if cc := controlCase(c); cc != nil {
		cout := RunCase(t, cc, false)
		var keep []Violation
		for _, v := range mine {
			same := false
			for _, cv := range cout.Viol {
				if cv.Oracle == v.Oracle {
					same = true
				}
			}
			if same && v.Oracle != "arg-modified" {
				notes["control-also-fails:"+v.Oracle]++
			} else {
				keep = append(keep, v)
			}
		}
		mine = keep
	}
	return mine
}

func heapMB() uint64 {
	var m runtime.MemStats
	runtime.ReadMemStats(&m)
	return m.HeapAlloc >> 20
}

func TestWorker(t *testing.T) {
	js := os.Getenv("VERIF_JOB")
	if js == "" {
		t.Skip("no VERIF_JOB")
	}
	var job workerJob
	if err := json.Unmarshal([]byte(js), &job); err != nil {
		fmt.Fprintln(os.Stderr, "bad job:", err)
		os.Exit(2)
	}
	t0 := time.Now()
	wo := &WorkerOut{Fired: map[string]int{}, Probes: map[string]int{}, Shapes: map[string]int{}, Notes: map[string]int{}, SeedHash: map[string]uint64{}}
	known := parseKnown(job.Known)
	deadline := time.UnixMilli(job.Deadline)
	k := job.Start
	reported := map[string]bool{}
	var enumQueue []*Case
	enumDone := map[uint64]bool{}
	leaks := 0
	idx := 0
	for {
		var seed uint64
		if len(job.Seeds) > 0 {
			if idx >= len(job.Seeds) {
				wo.Done = true
				break
			}
			seed = job.Seeds[idx]
			idx++
		} else {
			if wo.Runs >= job.MaxRuns || time.Now().After(deadline) {
				break
			}
			seed = job.Base + uint64(k)
			k += job.Stride
		}
		c := GenCase(job.Prop, seed, job.Thorough)
		if job.Thorough && c.MaxSteps == 0 {
			c.MaxSteps = 40_000_000 // longer programs: fewer runs end inconclusive at the step bound
		}
		// thorough: for a sample of programs enumerate the fault position over
		// (a stride of) every storage event index of the fault-free run
		enumerated := false
		if job.Thorough && len(job.Seeds) == 0 && (job.Prop == "C04" || job.Prop == "C08" || job.Prop == "C09" || job.Prop == "C11") && (c.Scenario == "seq" || c.Scenario == "crash" || c.Scenario == "fault") && seed%4 == 0 && len(enumQueue) == 0 && !enumDone[seed] {
			enumDone[seed] = true
			enumQueue = append(enumQueue, enumerate(t, c, wo)...)
		}
		if len(enumQueue) > 0 && len(job.Seeds) == 0 {
			c = enumQueue[0]
			enumQueue = enumQueue[1:]
			k -= job.Stride // the seed is not consumed by an enumerated case
			seed = c.Seed
			enumerated = true
		}
		out := RunCase(t, c, false)
		wo.Runs++
		wo.Steps += out.Steps
		wo.Decisions += out.Decisions
		wo.Switches += out.Switches
		wo.SimMs += out.SimTimeMs
		wo.Events += int64(out.Events)
		for kk, v := range out.Fired {
			wo.Fired[kk] += v
		}
		for kk, v := range out.Probes {
			wo.Probes[kk] += v
		}
		if out.Shape != "" {
			wo.Shapes[out.Shape]++
		}
		if out.Pairs > wo.PairsMax {
			wo.PairsMax = out.Pairs
		}
		wo.PairsSum += int64(out.Pairs)
		if out.StepLimit {
			wo.StepLimit++
		}
		if out.Leaked {
			leaks++
		}
		if out.NonTrivial {
			wo.NonTrivial++
			wo.Hashes = append(wo.Hashes, out.Hash)
		}
		if len(wo.SeedHash) < 64 && !enumerated {
			wo.SeedHash[fmt.Sprint(seed)] = out.Hash
		}
		if len(wo.Samples) < 2 && out.NonTrivial {
			b, _ := json.Marshal(sampleOf(c, out))
			wo.Samples = append(wo.Samples, b)
		}
		if len(out.Viol) > 0 && len(job.Seeds) == 0 {
			for _, v := range attribute(t, c, out, wo.Notes) {
				if reported[v.Finger] {
					continue
				}
				reported[v.Finger] = true
				f := Finding{Seed: seed, Oracle: v.Oracle, Finger: v.Finger, Detail: v.Detail, Size0: c.Size()}
				if _, ok := known.match(v.Finger); ok {
					// a listed finding: reported once by the driver, neither
					// minimised nor written out again
					f.Size1 = f.Size0
					wo.Findings = append(wo.Findings, f)
					continue
				}
				mc := c
				budget := 25 * time.Second
				mc, f.Runs = Shrink(t, c, v.Finger, budget, 1500)
				f.Size1 = mc.Size()
				mout := RunCase(t, mc, false)
				f.Hash = mout.Hash
				for _, mv := range mout.Viol {
					if mv.Finger == v.Finger {
						f.Detail = mv.Detail
					}
				}
				rf := ReplayFile{Version: 1, Prop: job.Prop, Oracle: v.Oracle, Finger: v.Finger, Detail: f.Detail, Hash: f.Hash, Case: mc}
				rdir := filepath.Join(verifDir, "replays")
				if d := os.Getenv("VERIF_REPLAY_DIR"); d != "" {
					rdir = d // runs against scratch trees keep their replay files apart
				}
				os.MkdirAll(rdir, 0o755)
				f.Replay = filepath.Join(rdir, fmt.Sprintf("%s-%d-%s.json", job.Prop, seed, sanitize(v.Finger)))
				b, _ := json.MarshalIndent(rf, "", " ")
				os.WriteFile(f.Replay, b, 0o644)
				wo.Findings = append(wo.Findings, f)
			}
		}
		// recycle the process when abandoned epochs have leaked too much
		if leaks > 300 || heapMB() > 1500 {
			break
		}
	}
	wo.Next = k
	if len(job.Seeds) == 0 && (time.Now().After(deadline)) {
		wo.Done = true
	}
	wo.WallS = time.Since(t0).Seconds()
	b, _ := json.Marshal(wo)
	if err := os.WriteFile(job.Out, b, 0o644); err != nil {
		fmt.Fprintln(os.Stderr, err)
		os.Exit(2)
	}
	os.Exit(0)
}

func sanitize(s string) string {
	var b strings.Builder
	for _, r := range s {
		if r >= 'a' && r <= 'z' || r >= 'A' && r <= 'Z' || r >= '0' && r <= '9' || r == '-' {
			b.WriteRune(r)
		} else {
			b.WriteByte('_')
		}
		if b.Len() > 40 {
			break
		}
	}
	return b.String()
}

// sampleOf renders a compact, human-readable description of a run.
func sampleOf(c *Case, out *RunOut) map[string]interface{} {
	var ops []string
	n := 0
	for ci, cl := range c.Clients {
		for _, o := range cl {
			if n >= 40 {
				break
			}
			n++
			s := o.K
			switch o.K {
			case "put":
				s = fmt.Sprintf("put(%q,v%d/%d)", []byte(o.Key), o.Val.ID, o.Val.Len)
			case "del", "get", "has":
				s = fmt.Sprintf("%s(%q)", o.K, []byte(o.Key))
			case "write":
				s = fmt.Sprintf("write(%d recs)", len(o.Recs))
			case "iter":
				s = fmt.Sprintf("iter(%d moves)", len(o.Moves))
			case "tx":
				s = fmt.Sprintf("tx(%d ops,commit=%v)", len(o.Body), o.Commit)
			}
			if o.Via != "" {
				s = o.Via + ":" + s
			}
			if len(c.Clients) > 1 {
				s = fmt.Sprintf("c%d:%s", ci, s)
			}
			ops = append(ops, s)
		}
	}
	m := map[string]interface{}{
		"seed": c.Seed, "scenario": c.Scenario, "knobs": c.Knobs, "sched": c.Sched,
		"ops_prefix": ops, "ops_total": totalOps(c), "faults": c.Faults,
		"result": map[string]interface{}{"steps": out.Steps, "decisions": out.Decisions, "switches": out.Switches, "sim_ms": out.SimTimeMs, "storage_events": out.Events, "fired": out.Fired, "probes": out.Probes, "lsm_shape": out.Shape, "event_log_hash": fmt.Sprintf("%016x", out.Hash)},
	}
	if c.Comp != nil {
		m["component"] = c.Comp
	}
	return m
}

func totalOps(c *Case) int {
	n := 0
	for _, cl := range c.Clients {
		n += len(cl)
	}
	return n
}

// ---- known findings ----

type knownFile struct {
	Findings []struct {
		Status   string `json:"status"` // "open" or "fixed"
		Property string `json:"property"`
		Finger   string `json:"fingerprint"`
		FingerRe string `json:"fingerprint_regex,omitempty"`
		What     string `json:"what"`
		Commit   string `json:"commit,omitempty"`
	} `json:"findings"`
}

// knownSet matches violation fingerprints against the open known findings of
// a property (exact fingerprint or regular expression).
type knownSet struct {
	exact map[string]string
	res   []*regexp.Regexp
	what  []string
	srcs  []string
}

func (k *knownSet) match(finger string) (string, bool) {
	if w, ok := k.exact[finger]; ok {
		return w, true
	}
	for i, re := range k.res {
		if re.MatchString(finger) {
			return k.what[i], true
		}
	}
	return "", false
}

func (k *knownSet) list() []string {
	var out []string
	for f := range k.exact {
		out = append(out, "="+f)
	}
	for _, s := range k.srcs {
		out = append(out, "~"+s)
	}
	sort.Strings(out)
	return out
}

func parseKnown(list []string) *knownSet {
	k := &knownSet{exact: map[string]string{}}
	for _, e := range list {
		if len(e) < 2 {
			continue
		}
		if e[0] == '=' {
			k.exact[e[1:]] = e[1:]
		} else if re, err := regexp.Compile(e[1:]); err == nil {
			k.res = append(k.res, re)
			k.what = append(k.what, e[1:])
			k.srcs = append(k.srcs, e[1:])
		}
	}
	return k
}

func loadKnown(prop string) *knownSet {
	k := &knownSet{exact: map[string]string{}}
	b, err := os.ReadFile(filepath.Join(verifDir, "known_findings.json"))
	if err != nil {
		return k
	}
	var kf knownFile
	if json.Unmarshal(b, &kf) != nil {
		return k
	}
	for _, f := range kf.Findings {
		if f.Status != "open" || f.Property != prop {
			continue
		}
		if f.FingerRe != "" {
			if re, err := regexp.Compile(f.FingerRe); err == nil {
				k.res = append(k.res, re)
				k.what = append(k.what, f.What)
				k.srcs = append(k.srcs, f.FingerRe)
			}
		} else {
			k.exact[f.Finger] = f.What
		}
	}
	return k
}

// ---- driver ----

func spawnWorker(job workerJob, gomaxprocs int) (*WorkerOut, error) {
	js, _ := json.Marshal(job)
	cmd := exec.Command(os.Args[0], "-test.run", "^TestWorker$", "-test.timeout", "0")
	// scratch directories of the worker (scenarios on real file storage) live
	// under the driver's run directory, which is removed when the check ends
	cmd.Env = append(os.Environ(), "VERIF_JOB="+string(js), fmt.Sprintf("GOMAXPROCS=%d", gomaxprocs), "TMPDIR="+filepath.Dir(job.Out))
	var stderr strings.Builder
	cmd.Stderr = &stderr
	cmd.Stdout = &stderr
	err := cmd.Run()
	b, rerr := os.ReadFile(job.Out)
	os.Remove(job.Out)
	if rerr != nil {
		out := stderr.String()
		if f := os.Getenv("VERIF_WORKER_LOG"); f != "" {
			os.WriteFile(f, []byte(out), 0o644)
		}
		head := out
		if len(head) > 1500 {
			head = head[:1500] + "\n[...]\n" + tail(out, 1500)
		}
		return nil, fmt.Errorf("worker produced no result (%v): %s", err, head)
	}
	var wo WorkerOut
	if jerr := json.Unmarshal(b, &wo); jerr != nil {
		return nil, jerr
	}
	return &wo, nil
}

func tail(s string, n int) string {
	if len(s) > n {
		return s[len(s)-n:]
	}
	return s
}

func TestDriver(t *testing.T) {
	prop := os.Getenv("VERIF_PROP")
	if prop == "" {
		t.Skip("no VERIF_PROP")
	}
	os.Exit(drive(prop))
}

// quickRuns is the number of seeds (base .. base+n-1) the quick tier explores
// per property: about what 16 idle cores explore in 20-50 s on the unchanged
// tree, and about what the former 40 s wall clock budget covered there.
var quickRuns = map[string]int{
	"C01": 18000, "C02": 9000, "C03": 14000, "C04": 20000, "C05": 50000,
	"C06": 9500, "C07": 7000, "C08": 23000, "C09": 24500, "C10": 8600,
	"C11": 6400, "C12": 1450, "C13": 8200, "C14": 180000, "C16": 13600,
	"C17": 63000, "C18": 17200, "C19": 8400, "C20": 7100,
}

func drive(prop string) int {
	tier := os.Getenv("VERIF_TIER")
	if tier == "" {
		tier = "quick"
	}
	thorough := tier == "thorough"
	seed := uint64(envInt("VERIF_SEED", 1))
	// quick explores a fixed number of seeds (quickRuns, VERIF_RUNS overrides),
	// so that what a run covers does not depend on how fast or how loaded the
	// machine is; its wall clock bound is only a watchdog. thorough, and any run
	// with an explicit VERIF_BUDGET_S, explores until the wall clock budget ends.
	quota := 0
	budget := envInt("VERIF_BUDGET_S", 0)
	if budget <= 0 {
		if thorough {
			budget = 900
		} else {
			budget = 1500
			quota = quickRuns[prop]
		}
	}
	if n := envInt("VERIF_RUNS", 0); n > 0 {
		quota = n
	}
	workers := envInt("VERIF_WORKERS", runtime.NumCPU())
	if workers < 1 {
		workers = 1
	}
	t0 := time.Now()
	deadline := t0.Add(time.Duration(budget) * time.Second)
	knownMap := loadKnown(prop)
	knownList := knownMap.list()
	base := seed * 1000003
	tmp, err := os.MkdirTemp("", "verif-run-")
	if err != nil {
		fmt.Println("cannot create temp dir:", err)
		return 2
	}
	defer os.RemoveAll(tmp)

	var mu sync.Mutex
	agg := &WorkerOut{Fired: map[string]int{}, Probes: map[string]int{}, Shapes: map[string]int{}, Notes: map[string]int{}, SeedHash: map[string]uint64{}}
	var trouble []string
	var wg sync.WaitGroup
	stop := false
	nextIdx := 0 // quota mode: the next seed index not yet handed to a worker
	// one worker process over the seed indices start, start+stride, ... (at most
	// maxRuns of them); returns the index it stopped at, false when the
	// exploration has to end
	runJob := func(w, gen, start, stride, maxRuns int) (int, bool) {
		job := workerJob{Prop: prop, Thorough: thorough, Base: base, Start: start, Stride: stride, MaxRuns: maxRuns,
			Deadline: deadline.UnixMilli(), Out: filepath.Join(tmp, fmt.Sprintf("w%d-%d.json", w, gen)), Known: knownList}
		gmp := []int{1, 2, 4, 16}[w%4]
		wo, err := spawnWorker(job, gmp)
		mu.Lock()
		defer mu.Unlock()
		if err != nil {
			trouble = append(trouble, err.Error())
			stop = true
			return start, false
		}
		merge(agg, wo)
		for _, f := range wo.Findings {
			if _, ok := knownMap.match(f.Finger); !ok {
				stop = true // an unknown violation: stop exploring, report
			}
		}
		return wo.Next, wo.Next > start
	}
	for w := 0; w < workers; w++ {
		wg.Add(1)
		go func(w int) {
			defer wg.Done()
			next := w
			end := 0
			gen := 0
			for time.Now().Before(deadline) {
				mu.Lock()
				s := stop
				if quota > 0 && !s && next >= end {
					// take the next chunk of seed indices: chunks shrink towards
					// the end so that the workers finish together
					if nextIdx >= quota {
						s = true
					} else {
						n := (quota - nextIdx) / (workers * 3)
						if n < 1 {
							n = 1
						}
						if lim := quota / (workers * 6); n > lim && lim > 0 {
							n = lim
						}
						next, end = nextIdx, nextIdx+n
						nextIdx = end
					}
				}
				mu.Unlock()
				if s {
					return
				}
				gen++
				var ok bool
				if quota > 0 {
					next, ok = runJob(w, gen, next, 1, end-next)
				} else {
					next, ok = runJob(w, gen, next, workers, 100000)
				}
				if !ok {
					return
				}
			}
		}(w)
	}
	wg.Wait()
	if len(trouble) > 0 {
		fmt.Println("TROUBLE (not a verdict):", trouble[0])
		return 2
	}

	// determinism self-check: re-run a sample of seeds in a fresh process at a
	// different GOMAXPROCS and compare the event-log hashes.
	var seeds []uint64
	var want []uint64
	{
		var ks []string
		for k := range agg.SeedHash {
			ks = append(ks, k)
		}
		sort.Strings(ks)
		for i, k := range ks {
			if i >= 24 {
				break
			}
			var s uint64
			fmt.Sscan(k, &s)
			seeds = append(seeds, s)
			want = append(want, agg.SeedHash[k])
		}
	}
	detChecked, detBad := 0, 0
	if len(seeds) > 0 {
		job := workerJob{Prop: prop, Thorough: thorough, Seeds: seeds, Out: filepath.Join(tmp, "det.json"), Deadline: time.Now().Add(time.Hour).UnixMilli()}
		wo, err := spawnWorker(job, 3)
		if err != nil {
			fmt.Println("TROUBLE (not a verdict): determinism re-run failed:", err)
			return 2
		}
		for i, s := range seeds {
			detChecked++
			if wo.SeedHash[fmt.Sprint(s)] != want[i] {
				detBad++
				fmt.Printf("DETERMINISM: seed %d produced event-log hash %016x, then %016x\n", s, want[i], wo.SeedHash[fmt.Sprint(s)])
			}
		}
	}

	// verify each finding by replaying its file in a fresh process
	code := 0
	var lines []string
	nviol := 0
	seenKnown := map[string]bool{}
	sort.Slice(agg.Findings, func(i, j int) bool { return agg.Findings[i].Seed < agg.Findings[j].Seed })
	seenFinger := map[string]bool{}
	for _, f := range agg.Findings {
		if what, ok := knownMap.match(f.Finger); ok {
			if !seenKnown[what] {
				seenKnown[what] = true
				lines = append(lines, fmt.Sprintf("KNOWN-FINDING: property=%s %s", prop, what))
			}
			continue
		}
		if seenFinger[f.Finger] {
			continue
		}
		seenFinger[f.Finger] = true
		ok, msg := replayFresh(f.Replay)
		if !ok {
			fmt.Printf("TROUBLE (not a verdict): replay of %s in a fresh process did not reproduce: %s\n", f.Replay, msg)
			return 2
		}
		nviol++
		code = 1
		lines = append(lines, fmt.Sprintf("VIOLATION property=%s replay=%s", prop, f.Replay))
		lines = append(lines, fmt.Sprintf("  oracle=%s fingerprint=%s seed=%d minimised %d->%d (%d runs)", f.Oracle, f.Finger, f.Seed, f.Size0, f.Size1, f.Runs))
		for _, l := range strings.Split(f.Detail, "\n") {
			if len(lines) < 60 {
				lines = append(lines, "  "+l)
			}
		}
	}
	if detBad > 0 {
		fmt.Println("TROUBLE (not a verdict): the simulation is not deterministic for this tree")
		return 2
	}
	writeEvidence(prop, tier, seed, agg, time.Since(t0), nviol, workers, detChecked, quota, nextIdx)
	for _, l := range lines {
		fmt.Println(l)
	}
	fmt.Printf("%s %s: runs=%d nontrivial=%d violations=%d known=%d wall=%.1fs steps=%d sim_time=%ds step_limit=%d determinism_recheck=%d/%d ok\n",
		prop, tier, agg.Runs, agg.NonTrivial, nviol, len(seenKnown), time.Since(t0).Seconds(), agg.Steps, agg.SimMs/1000, agg.StepLimit, detChecked-detBad, detChecked)
	if agg.Runs == 0 {
		fmt.Println("TROUBLE (not a verdict): no run completed")
		return 2
	}
	if quota > 0 && code == 0 && agg.Runs < quota {
		// the watchdog ended the run before the seed quota was explored: this
		// is not a verdict on the property
		fmt.Printf("TROUBLE (not a verdict): only %d of %d seeds explored within %d s\n", agg.Runs, quota, budget)
		return 2
	}
	return code
}

func merge(a, b *WorkerOut) {
	a.Runs += b.Runs
	a.NonTrivial += b.NonTrivial
	a.Hashes = append(a.Hashes, b.Hashes...)
	a.Steps += b.Steps
	a.Decisions += b.Decisions
	a.Switches += b.Switches
	a.SimMs += b.SimMs
	a.Events += b.Events
	a.StepLimit += b.StepLimit
	a.PairsSum += b.PairsSum
	if b.PairsMax > a.PairsMax {
		a.PairsMax = b.PairsMax
	}
	for k, v := range b.Fired {
		a.Fired[k] += v
	}
	for k, v := range b.Probes {
		a.Probes[k] += v
	}
	for k, v := range b.Shapes {
		a.Shapes[k] += v
	}
	for k, v := range b.Notes {
		a.Notes[k] += v
	}
	for k, v := range b.SeedHash {
		if len(a.SeedHash) < 256 {
			a.SeedHash[k] = v
		}
	}
	a.Findings = append(a.Findings, b.Findings...)
	for _, s := range b.Samples {
		if len(a.Samples) < 3 {
			a.Samples = append(a.Samples, s)
		}
	}
}

func replayFresh(path string) (bool, string) {
	cmd := exec.Command(os.Args[0], "-test.run", "^TestReplay$", "-test.timeout", "0")
	cmd.Env = append(os.Environ(), "VERIF_REPLAY="+path, "VERIF_REPLAY_QUIET=1")
	out, _ := cmd.CombinedOutput()
	sc := bufio.NewScanner(strings.NewReader(string(out)))
	for sc.Scan() {
		if strings.HasPrefix(sc.Text(), "REPRODUCED") {
			return true, ""
		}
	}
	return false, tail(string(out), 600)
}

// TestReplay re-executes a replay file against the current tree.
func TestReplay(t *testing.T) {
	path := os.Getenv("VERIF_REPLAY")
	if path == "" {
		t.Skip("no VERIF_REPLAY")
	}
	b, err := os.ReadFile(path)
	if err != nil {
		fmt.Println("cannot read replay file:", err)
		os.Exit(2)
	}
	var rf ReplayFile
	if err := json.Unmarshal(b, &rf); err != nil {
		fmt.Println("bad replay file:", err)
		os.Exit(2)
	}
	out := RunCase(t, rf.Case, true)
	for _, v := range out.Viol {
		if v.Finger == rf.Finger {
			sameHash := out.Hash == rf.Hash
			fmt.Printf("REPRODUCED fingerprint=%s event_log_hash_equal=%v\n", v.Finger, sameHash)
			if os.Getenv("VERIF_REPLAY_QUIET") == "" {
				fmt.Printf("VIOLATION property=%s replay=%s\n  %s\n", rf.Prop, path, strings.ReplaceAll(v.Detail, "\n", "\n  "))
				if len(out.DiskTrace) > 0 {
					fmt.Println("  last storage events:")
					for _, l := range out.DiskTrace {
						fmt.Println("   ", l)
					}
				}
			}
			os.Exit(1)
		}
	}
	fmt.Printf("NOT REPRODUCED: expected fingerprint %s; run produced %d violation(s)\n", rf.Finger, len(out.Viol))
	for _, v := range out.Viol {
		fmt.Printf("  other: %s %s\n", v.Oracle, v.Finger)
	}
	os.Exit(0)
}

// enumerate derives, from one generated program, the cases that place a single
// crash (C04) or a single storage error (C08) at every storage event index of
// its fault-free run (strided to at most ~250 positions).
func enumerate(t *testing.T, c *Case, wo *WorkerOut) []*Case {
	base := c.Clone()
	base.Faults = nil
	out := RunCase(t, base, false)
	n := out.Events
	if n == 0 || len(out.Viol) > 0 {
		return nil
	}
	stride := 1
	if n > 250 {
		stride = n / 250
	}
	var cases []*Case
	for k := 1; k <= n; k += stride {
		cc := base.Clone()
		f := &simdisk.Fault{Nth: k, Epoch: 0, Img: c.Seed*7919 + uint64(k)}
		if c.Prop == "C04" || c.Prop == "C11" && c.Seed%8 == 0 {
			f.Kind = "crash"
			f.After = k%2 == 0
		} else {
			f.Kind = "err"
			f.Count = 1
			f.Epoch = -1
		}
		cc.Faults = []*simdisk.Fault{f}
		cases = append(cases, cc)
	}
	wo.Probes["enumerated-programs"]++
	wo.Probes["enumerated-fault-positions"] += len(cases)
	wo.Probes["enumerated-storage-events"] += n
	return cases
}

// TestSelfDeterminism: for several properties, N seeds are executed in three
// fresh processes at GOMAXPROCS 1, 4 and 16 and the event-log hashes compared.
func TestSelfDeterminism(t *testing.T) {
	if os.Getenv("VERIF_SELFTEST") == "" {
		t.Skip("no VERIF_SELFTEST")
	}
	n := envInt("VERIF_SELFTEST_N", 40)
	tmp, _ := os.MkdirTemp("", "verif-det-")
	defer os.RemoveAll(tmp)
	bad, total := 0, 0
	for _, prop := range []string{"C01", "C02", "C03", "C04", "C05", "C06", "C07", "C08", "C09", "C10", "C11", "C14", "C16", "C17", "C18", "C19", "C20"} {
		var seeds []uint64
		for i := 0; i < n; i++ {
			seeds = append(seeds, 424200+uint64(i)*7)
		}
		var outs []*WorkerOut
		for i, gmp := range []int{1, 4, 16} {
			job := workerJob{Prop: prop, Seeds: seeds, Out: filepath.Join(tmp, fmt.Sprintf("%s-%d.json", prop, i)), Deadline: time.Now().Add(time.Hour).UnixMilli()}
			wo, err := spawnWorker(job, gmp)
			if err != nil {
				fmt.Println("TROUBLE:", err)
				os.Exit(2)
			}
			outs = append(outs, wo)
		}
		pb := 0
		for _, s := range seeds {
			k := fmt.Sprint(s)
			total++
			if outs[0].SeedHash[k] != outs[1].SeedHash[k] || outs[0].SeedHash[k] != outs[2].SeedHash[k] {
				pb++
				fmt.Printf("DIVERGED %s seed %d: %016x %016x %016x\n", prop, s, outs[0].SeedHash[k], outs[1].SeedHash[k], outs[2].SeedHash[k])
			}
		}
		fmt.Printf("selftest determinism %s: %d seeds x GOMAXPROCS{1,4,16}: %d diverged\n", prop, len(seeds), pb)
		bad += pb
	}
	fmt.Printf("selftest determinism: %d seed/property pairs, %d diverged\n", total, bad)
	if bad > 0 {
		os.Exit(2)
	}
	os.Exit(0)
}
