package sim

import (
	"bytes"
	"encoding/hex"
	"fmt"
	"os"
	"reflect"
	"sort"
	"testing"
	"time"

	"github.com/syndtr/goleveldb/leveldb"
	lerrors "github.com/syndtr/goleveldb/leveldb/errors"
	"github.com/syndtr/goleveldb/leveldb/iterator"
	"github.com/syndtr/goleveldb/leveldb/opt"
	"github.com/syndtr/goleveldb/leveldb/storage"
	"github.com/syndtr/goleveldb/leveldb/util"
	"verif/harness/simdisk"
	"verif/simrt"
)

// Violation is one oracle failure.
type Violation struct {
	Oracle string `json:"oracle"`
	Finger string `json:"finger"` // stable fingerprint for known-finding matching
	Detail string `json:"detail"`
	Client int    `json:"client"`
	OpIdx  int    `json:"op_idx"`
	Epoch  int    `json:"epoch"`
}

// RunOut is everything one simulated run produced.
type RunOut struct {
	Viol       []Violation    `json:"viol,omitempty"`
	Steps      int64          `json:"steps"`
	Decisions  int64          `json:"decisions"`
	Switches   int64          `json:"switches"`
	SimTimeMs  int64          `json:"sim_ms"`
	Hash       uint64         `json:"hash"`
	Pairs      int            `json:"pairs"`
	Goroutines int            `json:"goroutines"`
	Events     int            `json:"events"`
	Fired      map[string]int `json:"fired,omitempty"`
	Probes     map[string]int `json:"probes,omitempty"`
	OpsDone    int            `json:"ops_done"`
	Epochs     int            `json:"epochs"`
	StepLimit  bool           `json:"step_limit,omitempty"`
	Leaked     bool           `json:"leaked,omitempty"`
	NonTrivial bool           `json:"nontrivial"`
	Shape      string         `json:"shape,omitempty"`
	Trace      []string       `json:"trace,omitempty"`
	DiskTrace  []string       `json:"disk_trace,omitempty"`
	HistLen    int            `json:"hist_len,omitempty"`
}

type snapState struct {
	s *leveldb.Snapshot
	n int
}

type iterState struct {
	it      iterator.Iterator
	cur     *Cursor
	via     string
	editsAt int // manifest edits seen when the iterator was created
}

type runner struct {
	c         *Case
	disk      *simdisk.Disk
	model     *Model
	out       *RunOut
	db        *leveldb.DB
	knobs     Knobs
	mon       *monitor
	faulty    bool // faults or crashes are part of this case
	heldVals  []heldVal
	lastOpts  *opt.Options
	lastKnobs Knobs
	noScrib   bool

	pos           int // next op index of the sequential client
	crashed       bool
	crashF        *simdisk.Fault
	inflight      int // batch index in flight, -1 none
	required      map[int]bool
	epochBatch0   int
	snaps         map[int]*snapState
	iters         map[int]*iterState
	dbErr         error // persistent error state seen
	opened        bool
	crashes       int
	wantTrace     bool
	roCheck       bool
	failedEpoch   []int
	cs            *concState
	mutBy         map[int]int
	recovering    bool
	stopObservers bool
	rotted        bool
	measures      []int
	errFaults     bool
}

func (r *runner) probe(name string) {
	r.out.Probes[name]++
}

func (r *runner) viol(oracle, finger, detail string) {
	if len(r.out.Viol) >= 8 {
		return
	}
	r.out.Viol = append(r.out.Viol, Violation{Oracle: oracle, Finger: finger, Detail: detail, OpIdx: r.pos, Epoch: r.disk.Epoch})
}

func isNotFound(err error) bool { return err == leveldb.ErrNotFound }

func scribble(b []byte) {
	for i := range b {
		b[i] ^= 0x5a
	}
}

// RunCase executes one case in a fresh bubble.
func RunCase(t *testing.T, c *Case, wantTrace bool) *RunOut {
	out := &RunOut{Probes: map[string]int{}, Fired: map[string]int{}}
	if c.Comp != nil {
		runComponent(t, c, out, wantTrace)
		return out
	}
	r := &runner{c: c, out: out, knobs: c.Knobs, inflight: -1, mutBy: map[int]int{}, required: map[int]bool{}, snaps: map[int]*snapState{}, iters: map[int]*iterState{}, wantTrace: wantTrace}
	r.disk = simdisk.New()
	r.disk.KeepTrace = wantTrace
	for _, f := range c.Faults {
		cp := *f
		r.disk.Plan = append(r.disk.Plan, &cp)
	}
	r.faulty = len(c.Faults) > 0
	cmpr := comparerByName(c.Knobs.Comparer)
	r.model = NewModel(cmpr.Compare)
	r.mon = newMonitor(r, cmpr.Compare)
	cfg := simrt.Config{
		Seed: c.Seed, Strategy: c.Sched.Strategy, YieldP: c.Sched.YieldP, PCTDepth: c.Sched.PCTDepth,
		PCTHorizon: c.Sched.PCTHorizon, StallP: c.Sched.StallP, PoolDropP: c.Sched.PoolDropP,
		MaxSteps: c.MaxSteps, HangAfter: 600 * time.Second,
	}
	if wantTrace {
		cfg.KeepTrace = 60
		if os.Getenv("TRACEALL") != "" {
			cfg.KeepTrace = 1 << 28
			r.disk.KeepTrace = true
		}
	}
	var main func()
	switch c.Scenario {
	case "conc":
		main = r.mainConc
	case "conccrash":
		main = r.mainConcCrash
	case "life":
		main = r.mainLife
	case "recover":
		main = r.mainRecover
	default:
		main = r.mainSeq
	}
	res := simrt.Run(t, cfg, main)
	out.Steps, out.Decisions, out.Switches = res.Steps, res.Decisions, res.Switches
	out.SimTimeMs = res.SimTime.Milliseconds()
	out.Hash = res.TraceHash
	out.Pairs = res.SwitchPairs
	out.Goroutines = res.Goroutines
	out.Events = r.disk.St.Events
	for k, v := range r.disk.St.Fired {
		out.Fired[k] = v
	}
	out.Epochs = r.disk.Epoch + 1
	out.StepLimit = res.StepLimit
	out.Leaked = res.Leaked
	out.Trace = res.LastTrace
	if wantTrace {
		n := len(r.disk.Trace)
		if n > 80 && os.Getenv("TRACEALL") == "" {
			n = 80
		}
		out.DiskTrace = r.disk.Trace[len(r.disk.Trace)-n:]
	}
	if c.Scenario == "conc" && res.Panic == nil && res.Hang == nil && !res.StepLimit && res.Aborted == "" {
		r.checkLin()
	}
	if res.Panic != nil {
		fr := panicFrame(res.Panic.Stack)
		r.viol("panic", "panic:"+fr, fmt.Sprintf("goroutine %s panicked: %s\n%s", res.Panic.G.Name, res.Panic.Value, trimStack(res.Panic.Stack)))
	}
	if res.Hang != nil {
		r.viol("hang", hangFinger(res.Hang), hangDetail(res.Hang))
	}
	if dir := os.Getenv("DUMPDISK"); dir != "" {
		os.MkdirAll(dir, 0o755)
		for _, fd := range r.disk.ListFiles(storage.TypeAll) {
			data, _ := r.disk.Data(fd)
			os.WriteFile(dir+"/"+fd.String(), data, 0o644)
		}
		os.WriteFile(dir+"/CURRENT", []byte(r.disk.Meta().String()+"\n"), 0o644)
	}
	if k := os.Getenv("DUMPKEY"); k != "" {
		kb, _ := hex.DecodeString(k)
		out.DiskTrace = append(out.DiskTrace, "--- entries of key in live tables ("+r.mon.shape()+") ---")
		out.DiskTrace = append(out.DiskTrace, r.mon.dumpKey(kb)...)
	}
	out.Shape = r.mon.shape()
	out.NonTrivial = r.nontrivial()
	return out
}

func (r *runner) nontrivial() bool {
	p := r.out.Probes
	switch r.c.Prop {
	case "C04":
		return r.crashes > 0 && (p["flush"] > 0 || p["table-write"] > 0)
	case "C08", "C09":
		n := 0
		for _, v := range r.out.Fired {
			n += v
		}
		return n > 0
	case "C05", "C10":
		return p["overlap"] > 0
	}
	return r.out.OpsDone >= 3 && (p["table-write"] > 0 || r.c.Scenario != "seq")
}

// ---- open / close ----

func (r *runner) open(recoverMode bool) error {
	// like an application, keep using one Options value for as long as the
	// settings stay the same (Open, reopen, Recover): the DB must not have
	// changed it in a way that matters to the next session
	if r.lastOpts == nil || !reflect.DeepEqual(r.lastKnobs, r.knobs) {
		r.lastOpts, r.lastKnobs = r.knobs.Options(), r.knobs
	} else {
		r.probe("options-value-reused")
	}
	o := r.lastOpts
	var db *leveldb.DB
	var err error
	simrt.SetOp("Open")
	if recoverMode {
		db, err = leveldb.Recover(r.disk.Handle(), o)
	} else {
		db, err = leveldb.Open(r.disk.Handle(), o)
	}
	simrt.SetOp("")
	simrt.Progress()
	if err != nil {
		return err
	}
	r.db = db
	r.opened = true
	return nil
}

func (r *runner) releaseHandles() {
	var ks []int
	for k := range r.iters {
		ks = append(ks, k)
	}
	sort.Ints(ks)
	for _, k := range ks {
		r.iters[k].it.Release()
		delete(r.iters, k)
	}
	ks = ks[:0]
	for k := range r.snaps {
		ks = append(ks, k)
	}
	sort.Ints(ks)
	for _, k := range ks {
		r.snaps[k].s.Release()
		delete(r.snaps, k)
	}
}

func (r *runner) closeDB() {
	if r.db == nil {
		return
	}
	r.releaseHandles()
	r.checkHeld()
	simrt.SetOp("Close")
	err := r.db.Close()
	simrt.SetOp("")
	simrt.Progress()
	if err != nil && !r.faulty {
		r.viol("close-err", "close-err", fmt.Sprintf("Close returned %v in a fault-free run", err))
	}
	r.db = nil
}

// ---- sequential driver (S-SEQ, S-CRASH, S-FAULT) ----

// observer is a second client that takes snapshots while the main client
// works and reads each of them twice, some time apart: a frozen view never
// changes (C03, stability form: needs no model).
func (r *runner) observer(ci int, ops []Op) {
	scan := func(s *leveldb.Snapshot) (string, error) {
		it := s.NewIterator(nil, nil)
		defer it.Release()
		var b bytes.Buffer
		for ok := it.First(); ok; ok = it.Next() {
			fmt.Fprintf(&b, "%x=%x;", it.Key(), it.Value())
		}
		return b.String(), it.Error()
	}
	for i := range ops {
		db := r.db
		if db == nil || r.stopObservers || len(r.out.Viol) > 0 {
			return
		}
		s, err := db.GetSnapshot()
		if err != nil {
			return
		}
		a, e1 := scan(s)
		if ops[i].Ms > 0 {
			simrt.Sleep(time.Duration(ops[i].Ms) * time.Millisecond)
		} else {
			simrt.Yield("harness.observer")
		}
		b, e2 := scan(s)
		s.Release()
		r.probe("observer-snapshot")
		if e1 == nil && e2 == nil && a != b {
			r.viol("snap-unstable", "snap-unstable", fmt.Sprintf("two scans through the same snapshot differ:\n first: %s\n later: %s", clip(a, 600), clip(b, 600)))
			return
		}
	}
}

func clip(s string, n int) string {
	if len(s) > n {
		return s[:n] + "..."
	}
	return s
}

func (r *runner) mainSeq() {
	ops := r.c.Clients[0]
	for {
		ev := &simrt.Event{}
		r.crashed = false
		r.disk.H.OnCrash = func(f *simdisk.Fault) {
			r.crashed = true
			r.crashF = f
			ev.Set()
			simrt.KillEpoch(r.disk.Epoch + 1000) // does not return
		}
		simrt.GoEpoch(r.disk.Epoch+1000, "client", func() {
			defer ev.Set()
			var wg simrt.WaitGroup
			if len(r.c.Clients) > 1 && len(r.c.Faults) == 0 {
				if !r.ensureOpen() {
					return
				}
				for ci := 1; ci < len(r.c.Clients); ci++ {
					ci := ci
					wg.Add(1)
					simrt.Go(fmt.Sprintf("client%d", ci), func() {
						defer wg.Done()
						r.observer(ci, r.c.Clients[ci])
					})
				}
			}
			r.clientSeq(ops)
			r.stopObservers = true
			wg.Wait()
			if r.db != nil && len(r.out.Viol) == 0 {
				r.closeDB()
			}
		})
		ev.Wait()
		if !r.crashed {
			return
		}
		r.afterCrash()
		if len(r.out.Viol) > 0 {
			return
		}
	}
}

// epochs of simulated goroutines are disk epoch + 1000 so that epoch 0 stays
// the harness driver.
func (r *runner) afterCrash() {
	r.crashes++
	r.probe("crash")
	// the DB's goroutines share the client's epoch
	simrt.KillEpoch(r.disk.Epoch + 1000)
	r.db = nil
	r.snaps = map[int]*snapState{}
	r.iters = map[int]*iterState{}
	// everything acknowledged but not required-durable becomes indeterminate
	if r.knobs.NoSync {
		// process-death model: every acknowledged write was handed to storage
		r.disk.NextEpoch(simdisk.ImageProcessDeath, r.crashF.Img, true)
	} else {
		r.model.Demote(0, r.model.Len(), r.required)
		desc := r.disk.NextEpoch(simdisk.ImagePowerLoss, r.crashF.Img, true)
		for _, d := range desc {
			simrt.NoteStr(d)
		}
	}
	r.resetFailed()
	r.inflight = -1
	r.pos++ // the interrupted operation is not retried
	r.opened = false
	r.mon.epochStart()
}

func (r *runner) ensureOpen() bool {
	if r.db != nil {
		return true
	}
	err := r.open(false)
	if err != nil {
		if isInjected(err) {
			// a fault hit Open itself: retry later (next op)
			r.probe("open-failed-by-fault")
			return false
		}
		if r.rotted {
			// damaged data may be reported at Open as well; the run ends here
			r.probe("open-failed-after-rot")
			r.pos = 1 << 30
			return false
		}
		r.viol("open", "open-failed", fmt.Sprintf("Open failed: %v", err))
		return false
	}
	if r.disk.Epoch > 0 || r.model.Len() > 0 {
		r.scanAll("scan")
	}
	return true
}

func isInjected(err error) bool {
	for err != nil {
		if err == simdisk.ErrInjected {
			return true
		}
		if e, ok := err.(*lerrors.ErrCorrupted); ok {
			err = e.Err
			continue
		}
		if e, ok := err.(*storage.ErrCorrupted); ok {
			err = e.Err
			continue
		}
		return bytes.Contains([]byte(err.Error()), []byte("simdisk: injected"))
	}
	return false
}

func (r *runner) clientSeq(ops []Op) {
	for r.pos < len(ops) {
		if len(r.out.Viol) > 0 {
			break
		}
		if !r.ensureOpen() {
			if len(r.out.Viol) > 0 {
				break
			}
			// Open failed because of an injected fault: skip an op and retry
			r.pos++
			continue
		}
		op := &ops[r.pos]
		if os.Getenv("SELFCHECK") != "" && r.db != nil {
			simrt.Atomic(func() {
				it2 := r.db.NewIterator(nil, &opt.ReadOptions{DontFillCache: true})
				n := 0
				for ok := it2.Last(); ok; ok = it2.Prev() {
					n++
				}
				if err := it2.Error(); err != nil {
					fmt.Printf("SELFCHECK before op %d (%s): n=%d err=%v\n", r.pos, op.K, n, err)
				}
				it2.Release()
			})
		}
		r.execOp(op, nil)
		r.out.OpsDone++
		r.pos++
	}
	if r.db != nil && len(r.out.Viol) == 0 {
		r.finalChecks()
	}
	if r.db != nil && len(r.out.Viol) == 0 && len(r.c.Clients) == 1 {
		r.closeDB()
	}
	if len(r.out.Viol) > 0 {
		// stop the run here: the DB is left as it is
		simrt.Abort("violation")
	}
}

func (r *runner) finalChecks() {
	if r.c.Prop == "C07" || r.c.Prop == "C11" {
		r.releaseHandles()
		if !r.faulty || r.c.TableFaultsOnly && r.disk.Healed {
			r.settleCheck()
		}
	}
}

// scanAll reads the whole DB through an iterator and checks it against the
// model (after reopen / recovery).
func (r *runner) scanAll(oracle string) {
	it := r.db.NewIterator(nil, nil)
	cur := NewCursor(View{M: r.model, N: r.model.Len()}, nil, nil, false, false)
	mv := Move{K: "first"}
	ok := it.First()
	for {
		var msg string
		if ok {
			msg = cur.Step(mv, true, it.Key(), it.Value())
		} else {
			if err := it.Error(); err != nil {
				if !(r.faulty && isInjected(err)) && !r.rotted {
					r.viol(oracle, oracle+":iter-error", fmt.Sprintf("full scan after reopen failed: %v", err))
				}
				break
			}
			msg = cur.Step(mv, false, nil, nil)
		}
		if msg != "" {
			r.viol(oracle, oracle+":mismatch", "full scan after reopen: "+msg)
			break
		}
		if !ok {
			break
		}
		mv = Move{K: "next"}
		ok = it.Next()
	}
	it.Release()
	simrt.Progress()
}

// ---- operations ----

type txCtx struct {
	tr      *leveldb.Transaction
	n       int
	overlay []Rec
	iters   map[int]*iterState
}

func (r *runner) wo(op *Op) *opt.WriteOptions {
	return &opt.WriteOptions{Sync: op.Sync, NoWriteMerge: op.NoMerge}
}

func (r *runner) ro(op *Op) *opt.ReadOptions {
	if op.DontFill {
		return &opt.ReadOptions{DontFillCache: true}
	}
	return nil
}

func opRecs(op *Op) []Rec {
	switch op.K {
	case "put":
		return []Rec{{Key: op.Key, Val: op.Val}}
	case "del":
		return []Rec{{Del: true, Key: op.Key}}
	default:
		return op.Recs
	}
}

func (r *runner) writeResult(op *Op, bi int, err error) {
	simrt.Progress()
	if err == nil {
		r.model.SetStatus(bi, stYes)
		if op.Sync && !r.knobs.NoSync {
			r.required[bi] = true
		}
		return
	}
	if !r.faulty {
		r.model.SetStatus(bi, stNo)
		r.viol("write-err", "write-err:"+errClass(err), fmt.Sprintf("%s returned %v in a fault-free run", op.K, err))
		return
	}
	r.probe("write-failed")
	// indeterminate: its fate may only become known after the next reopen
	r.failedEpoch = append(r.failedEpoch, bi)
}

// resetFailed forgets what reads of the ending epoch suggested about writes
// that returned an error in it: whether the storage kept them is only decided
// by the next recovery.
func (r *runner) resetFailed() {
	for _, bi := range r.failedEpoch {
		r.model.SetStatus(bi, stMaybe)
	}
	r.failedEpoch = nil
}

func errClass(err error) string {
	s := err.Error()
	if len(s) > 60 {
		s = s[:60]
	}
	return s
}

func (r *runner) doWrite(op *Op, tx *txCtx) {
	recs := opRecs(op)
	if tx != nil {
		var err error
		switch op.K {
		case "put":
			k, v := append([]byte(nil), op.Key...), op.Val.Bytes()
			err = tx.tr.Put(k, v, nil)
			if op.Scrib {
				scribble(k)
				scribble(v)
			}
		case "del":
			k := append([]byte(nil), op.Key...)
			err = tx.tr.Delete(k, nil)
			if op.Scrib {
				scribble(k)
			}
		default:
			b := new(leveldb.Batch)
			for _, rc := range recs {
				if rc.Del {
					b.Delete(rc.Key)
				} else {
					b.Put(rc.Key, rc.Val.Bytes())
				}
			}
			err = tx.tr.Write(b, nil)
			if op.Scrib {
				b.Reset()
			}
		}
		simrt.Progress()
		if err != nil {
			if !r.faulty {
				r.viol("write-err", "tx-write-err", fmt.Sprintf("transaction %s returned %v in a fault-free run", op.K, err))
			}
			// a failed transaction write: its records may or may not be staged;
			// the harness discards such transactions (see execTx)
			tx.overlay = append(tx.overlay, recs...)
			tx.n = -1
			return
		}
		tx.overlay = append(tx.overlay, recs...)
		return
	}
	bi := r.model.Append(recs, stMaybe, op.K)
	r.inflight = bi
	var err error
	simrt.SetOp(op.K)
	switch op.K {
	case "put":
		k, v := append([]byte(nil), op.Key...), op.Val.Bytes()
		k0, v0 := append([]byte(nil), k...), append([]byte(nil), v...)
		err = r.db.Put(k, v, r.wo(op))
		if !bytes.Equal(k, k0) || !bytes.Equal(v, v0) {
			r.viol("arg-modified", "arg-modified:put", "Put modified its argument buffers")
		}
		if op.Scrib {
			scribble(k)
			scribble(v)
		}
	case "del":
		k := append([]byte(nil), op.Key...)
		err = r.db.Delete(k, r.wo(op))
		if !bytes.Equal(k, op.Key) {
			r.viol("arg-modified", "arg-modified:delete", "Delete modified its key buffer")
		}
		if op.Scrib {
			scribble(k)
		}
	default:
		b := new(leveldb.Batch)
		var bufs [][]byte
		for _, rc := range recs {
			k := append([]byte(nil), rc.Key...)
			bufs = append(bufs, k)
			if rc.Del {
				b.Delete(k)
			} else {
				v := rc.Val.Bytes()
				bufs = append(bufs, v)
				b.Put(k, v)
			}
			if op.Scrib {
				// Batch.Put/Delete must have copied already
				if !rc.Del {
					scribble(bufs[len(bufs)-1])
				}
				scribble(k)
			}
		}
		var dump []byte
		if op.Scrib {
			dump = append([]byte(nil), b.Dump()...)
		}
		err = r.db.Write(b, r.wo(op))
		if op.Scrib {
			if !bytes.Equal(dump, b.Dump()) {
				r.viol("arg-modified", "arg-modified:batch", "Write modified the caller's batch")
			}
			b.Reset()
			b.Put([]byte("scribble"), []byte("scribble"))
		}
		r.probe("batch")
	}
	simrt.SetOp("")
	r.inflight = -1
	r.writeResult(op, bi, err)
}

func (r *runner) view(op *Op, tx *txCtx) (View, string, bool) {
	switch op.Via {
	case "snap":
		s := r.snaps[op.Slot]
		if s == nil {
			return View{}, "", false
		}
		return View{M: r.model, N: s.n}, "snap", true
	case "tx":
		if tx == nil || tx.n < 0 {
			return View{}, "", false
		}
		return View{M: r.model, N: tx.n, Overlay: tx.overlay}, "tx", true
	}
	return View{M: r.model, N: r.model.Len()}, "", true
}

func (r *runner) readErr(oracle string, what string, err error) {
	if r.faulty && (isInjected(err) || r.errFaultsFired() > 0 || r.rotted) {
		// after injected storage faults a read may fail; it must not lie
		r.probe("read-failed")
		return
	}
	r.viol(oracle, oracle+":error", fmt.Sprintf("%s returned error %v", what, err))
}

// errFaultsFired counts injected operation failures (not crashes or stalls).
func (r *runner) errFaultsFired() int {
	n := 0
	for k, v := range r.disk.St.Fired {
		if len(k) > 4 && (k[:4] == "err/" || k[:6] == "short/") {
			n += v
		}
	}
	return n
}

func (r *runner) doGet(op *Op, tx *txCtx) {
	v, pfx, ok := r.view(op, tx)
	if !ok {
		return
	}
	key := append([]byte(nil), op.Key...)
	var val []byte
	var err error
	var has bool
	isHas := op.K == "has"
	simrt.SetOp(pfx + op.K)
	switch op.Via {
	case "snap":
		if isHas {
			has, err = r.snaps[op.Slot].s.Has(key, r.ro(op))
		} else {
			val, err = r.snaps[op.Slot].s.Get(key, r.ro(op))
		}
	case "tx":
		if isHas {
			has, err = tx.tr.Has(key, r.ro(op))
		} else {
			val, err = tx.tr.Get(key, r.ro(op))
		}
	default:
		if isHas {
			has, err = r.db.Has(key, r.ro(op))
		} else {
			val, err = r.db.Get(key, r.ro(op))
		}
	}
	simrt.SetOp("")
	simrt.Progress()
	if !bytes.Equal(key, op.Key) {
		r.viol("arg-modified", "arg-modified:get", "Get/Has modified its key buffer")
	}
	if op.Scrib {
		scribble(key)
	}
	oracle := pfx + "get"
	if isHas {
		if err != nil {
			r.readErr(oracle, "Has", err)
			return
		}
		// Has carries no value: check presence only
		ch := v.chain(op.Key)
		okk := false
		for _, c := range ch {
			if c.del != has {
				okk = true
			}
		}
		if !okk {
			r.viol(oracle, oracle+":has-mismatch", fmt.Sprintf("Has(%q)=%v, legal: %v", op.Key, has, ch))
		}
		return
	}
	found := true
	if isNotFound(err) {
		found = false
	} else if err != nil {
		r.readErr(oracle, "Get", err)
		return
	}
	if msg := v.Observe(op.Key, found, val); msg != "" {
		r.viol(oracle, oracle+":mismatch", "Get: "+msg)
	}
	if op.Scrib && found {
		// the returned value is the caller's to modify, and to grow in place:
		// the spare capacity behind it belongs to the caller as well
		scribble(val[:cap(val)])
		r.probe("scribble-get")
	}
	if found && len(val) > 0 {
		// the value belongs to the caller from now on: whatever the DB does
		// later (flushes, compactions, cache eviction, buffer reuse) must not
		// change it
		if len(r.heldVals) >= 16 {
			r.heldVals = r.heldVals[1:]
		}
		r.heldVals = append(r.heldVals, heldVal{s: val, want: append([]byte(nil), val...), what: fmt.Sprintf("%sGet(%q)", pfx, op.Key)})
	}
}

type heldVal struct {
	s, want []byte
	what    string
}

// checkHeld: values returned by earlier Gets are still what they were.
func (r *runner) checkHeld() {
	for _, h := range r.heldVals {
		if !bytes.Equal(h.s, h.want) {
			r.viol("get", "get:value-changed-later", fmt.Sprintf("the value returned by %s changed in the caller's hands afterwards: it is backed by memory the DB still writes to", h.what))
			r.heldVals = nil
			return
		}
	}
}

func (r *runner) newIter(op *Op, tx *txCtx) *iterState {
	v, pfx, ok := r.view(op, tx)
	if !ok {
		return nil
	}
	var rg *util.Range
	var s, l []byte
	if op.HasS || op.HasL {
		rg = &util.Range{}
		if op.HasS {
			s = append([]byte{}, op.Start...)
			rg.Start = s
		}
		if op.HasL {
			l = append([]byte{}, op.Limit...)
			rg.Limit = l
		}
	}
	var it iterator.Iterator
	switch op.Via {
	case "snap":
		it = r.snaps[op.Slot].s.NewIterator(rg, r.ro(op))
	case "tx":
		it = tx.tr.NewIterator(rg, r.ro(op))
	default:
		it = r.db.NewIterator(rg, r.ro(op))
	}
	if op.Scrib {
		// the range bounds are argument buffers too
		scribble(s)
		scribble(l)
	}
	cur := NewCursor(v, op.Start, op.Limit, op.HasS, op.HasL)
	return &iterState{it: it, cur: cur, via: pfx, editsAt: r.mon.edits}
}

func (r *runner) stepIter(is *iterState, moves []Move, scrib bool) {
	oracle := is.via + "iter"
	for _, mv := range moves {
		var ok bool
		switch mv.K {
		case "first":
			ok = is.it.First()
		case "last":
			ok = is.it.Last()
		case "next":
			ok = is.it.Next()
		case "prev":
			ok = is.it.Prev()
		case "seek":
			k := append([]byte(nil), mv.Key...)
			ok = is.it.Seek(k)
			if !bytes.Equal(k, mv.Key) {
				r.viol("arg-modified", "arg-modified:seek", "Seek modified its key buffer")
			}
			if scrib {
				scribble(k)
			}
		}
		simrt.Progress()
		if !ok {
			if err := is.it.Error(); err != nil {
				r.readErr(oracle, "iterator "+mv.K, err)
				return
			}
			if is.it.Valid() {
				r.viol(oracle, oracle+":valid-after-false", fmt.Sprintf("%s returned false but Valid() is true", mv.K))
				return
			}
			if msg := is.cur.Step(mv, false, nil, nil); msg != "" {
				r.viol(oracle, oracle+":mismatch", msg)
				return
			}
			continue
		}
		if !is.it.Valid() {
			r.viol(oracle, oracle+":invalid-after-true", fmt.Sprintf("%s returned true but Valid() is false", mv.K))
			return
		}
		k, v := is.it.Key(), is.it.Value()
		if msg := is.cur.Step(mv, true, k, v); msg != "" {
			if os.Getenv("DEBUGITER") != "" && r.db != nil {
				it2 := r.db.NewIterator(nil, nil)
				for ok := it2.Last(); ok; ok = it2.Prev() {
					vv := it2.Value()
					if len(vv) > 10 {
						vv = vv[:10]
					}
					msg += fmt.Sprintf("\n  fresh-iter: %q=%q", it2.Key(), vv)
				}
				msg += fmt.Sprintf("\n  fresh-iter error: %v", it2.Error())
				it2.Release()
				gv, ge := r.db.Get(k, nil)
				if len(gv) > 10 {
					gv = gv[:10]
				}
				msg += fmt.Sprintf("\n  get(%q)=%q,%v", k, gv, ge)
			}
			r.viol(oracle, oracle+":mismatch", msg)
			return
		}
		// exposed slices must stay intact until the next movement
		k2, v2 := is.it.Key(), is.it.Value()
		if !bytes.Equal(k, k2) || !bytes.Equal(v, v2) {
			r.viol(oracle, oracle+":unstable", "Key/Value changed without a movement")
			return
		}
	}
}

// settleCheck waits until background work has settled - all DB goroutines
// blocked, and the version-reference cache (which may hold back file removal
// for up to 5 minutes) expired twice - and then evaluates I-files.
func (r *runner) settleCheck() {
	simrt.Quiesce()
	simrt.IdleFor(301 * time.Second)
	simrt.Quiesce()
	simrt.IdleFor(301 * time.Second)
	simrt.Quiesce()
	simrt.Progress()
	r.mon.checkFilesSettled()
}

func (r *runner) execTx(op *Op) {
	simrt.SetOp("OpenTransaction")
	tr, err := r.db.OpenTransaction()
	simrt.SetOp("")
	simrt.Progress()
	if err != nil {
		if !r.faulty {
			r.viol("tx-open", "tx-open-err", fmt.Sprintf("OpenTransaction returned %v in a fault-free run", err))
		}
		return
	}
	r.probe("tx")
	tx := &txCtx{tr: tr, n: r.model.Len()}
	for i := range op.Body {
		if len(r.out.Viol) > 0 {
			break
		}
		r.execOp(&op.Body[i], tx)
	}
	{
		var ks []int
		for k := range tx.iters {
			ks = append(ks, k)
		}
		sort.Ints(ks)
		for _, k := range ks {
			if k == 0 && op.Outlive > 0 && len(r.out.Viol) == 0 {
				// the iterator's view is fixed at its creation: it stays
				// valid after the transaction is committed or discarded
				if old := r.iters[op.Outlive]; old != nil {
					old.it.Release()
				}
				r.iters[op.Outlive] = tx.iters[k]
				r.probe("tx-iter-outlives")
				continue
			}
			tx.iters[k].it.Release()
		}
		tx.iters = nil
	}
	if len(r.out.Viol) > 0 {
		tr.Discard()
		return
	}
	if op.Commit && tx.n >= 0 {
		bi := r.model.Append(append([]Rec(nil), tx.overlay...), stMaybe, "tx-commit")
		r.inflight = bi
		simrt.SetOp("Commit")
		err := tr.Commit()
		simrt.SetOp("")
		r.inflight = -1
		simrt.Progress()
		if err == nil {
			r.model.SetStatus(bi, stYes)
			if !r.knobs.NoSync {
				r.required[bi] = true // Commit is durable without further action
			}
			r.probe("tx-commit")
		} else {
			if !r.faulty {
				r.viol("tx-commit", "tx-commit-err", fmt.Sprintf("Commit returned %v in a fault-free run", err))
			}
			r.probe("tx-commit-failed")
			r.failedEpoch = append(r.failedEpoch, bi)
			if op.Ms > 0 {
				// the application takes its time before it gives up: in
				// the meantime background commits may go through
				simrt.IdleFor(time.Duration(op.Ms) * time.Millisecond)
				r.probe("tx-discard-delayed")
			}
			// release the transaction so later writers can proceed
			tr.Discard()
		}
		return
	}
	simrt.SetOp("Discard")
	tr.Discard()
	simrt.SetOp("")
	simrt.Progress()
	r.probe("tx-discard")
}

func (r *runner) execOp(op *Op, tx *txCtx) {
	r.checkHeld()
	switch op.K {
	case "put", "del", "write":
		r.doWrite(op, tx)
	case "get", "has":
		r.doGet(op, tx)
	case "snap":
		if old := r.snaps[op.Slot]; old != nil {
			old.s.Release()
			delete(r.snaps, op.Slot)
		}
		s, err := r.db.GetSnapshot()
		simrt.Progress()
		if err != nil {
			if !r.faulty {
				r.viol("snap", "snap-err", fmt.Sprintf("GetSnapshot returned %v", err))
			}
			return
		}
		r.snaps[op.Slot] = &snapState{s: s, n: r.model.Len()}
		r.probe("snapshot")
	case "snaprel":
		if s := r.snaps[op.Slot]; s != nil {
			s.s.Release()
			delete(r.snaps, op.Slot)
		}
	case "iter":
		if op.Via == "snap" && r.snaps[op.Slot] == nil {
			return
		}
		is := r.newIter(op, tx)
		if is == nil {
			return
		}
		r.probe("iter")
		r.stepIter(is, op.Moves, op.Scrib)
		if op.Keep && tx != nil && len(r.out.Viol) == 0 {
			if tx.iters == nil {
				tx.iters = map[int]*iterState{}
			}
			if old := tx.iters[op.Slot]; old != nil {
				old.it.Release()
			}
			tx.iters[op.Slot] = is
			r.probe("tx-iter-kept")
			return
		}
		if op.Keep && tx == nil && len(r.out.Viol) == 0 {
			slot := op.Slot
			if op.Via == "snap" {
				slot += 100
			}
			if old := r.iters[slot]; old != nil {
				old.it.Release()
			}
			r.iters[slot] = is
			r.probe("iter-kept")
		} else {
			is.it.Release()
		}
	case "iterstep":
		if tx != nil {
			if is := tx.iters[op.Slot]; is != nil {
				r.stepIter(is, op.Moves, false)
				r.probe("tx-iter-resumed")
			}
			return
		}
		if is := r.iters[op.Slot]; is != nil {
			r.stepIter(is, op.Moves, false)
			r.probe("iter-resumed")
			if r.mon.edits-is.editsAt > 256 {
				r.probe("iter-resumed-over-256-versions-later")
			}
		}
	case "iterrel":
		if is := r.iters[op.Slot]; is != nil {
			is.it.Release()
			delete(r.iters, op.Slot)
		}
	case "tx":
		if tx == nil {
			r.execTx(op)
		}
	case "compact":
		var rg util.Range
		if op.HasS {
			rg.Start = append([]byte{}, op.Start...)
		}
		if op.HasL {
			rg.Limit = append([]byte{}, op.Limit...)
		}
		simrt.SetOp("CompactRange")
		err := r.db.CompactRange(rg)
		simrt.SetOp("")
		simrt.Progress()
		if err != nil && !r.faulty {
			r.viol("compact-err", "compact-err:"+errClass(err), fmt.Sprintf("CompactRange returned %v in a fault-free run", err))
		}
		r.probe("compact-range")
	case "setro":
		// SetReadOnly in the middle of a history: every write entry point
		// answers (ErrReadOnly), then the DB is closed and reopened read-write
		simrt.SetOp("SetReadOnly")
		err := r.db.SetReadOnly()
		simrt.SetOp("")
		simrt.Progress()
		if err == nil {
			r.roProbes()
			r.probe("setro-mid-history")
		} else if !r.faulty {
			r.viol("readonly", "readonly:setreadonly-failed", fmt.Sprintf("SetReadOnly returned %v", err))
		}
		fallthrough
	case "reopen":
		r.closeDB()
		r.resetFailed()
		r.disk.NextEpoch(simdisk.ImagePowerLoss, 0, false)
		simrt.SetEpoch(r.disk.Epoch + 1000)
		if op.Knob != nil {
			cmp := r.knobs.Comparer
			r.knobs = *op.Knob
			r.knobs.Comparer = cmp
		}
		r.probe("reopen")
		// the next loop iteration reopens and scans
	case "sleep":
		simrt.IdleFor(time.Duration(op.Ms) * time.Millisecond)
		r.probe("sleep")
	case "settle":
		if len(r.iters) == 0 && (!r.faulty || r.c.TableFaultsOnly && r.disk.Healed) {
			r.settleCheck()
		} else {
			simrt.Quiesce()
			simrt.Progress()
		}
	case "fsrw":
		r.fsRW(uint64(op.Ms) + 1)
	case "heal":
		r.disk.Healed = true
	case "measure":
		// C07 "space is given back": table bytes after round K of
		// overwrite-everything + full compaction vs. after round 1
		r.releaseHandles() // "once readers are released"
		r.settleCheck()
		n := r.disk.TotalBytes(storage.TypeTable)
		r.measures = append(r.measures, n)
		r.probe("space-measure")
		if len(r.measures) >= 2 && op.Slot == op.Ms {
			first, last := r.measures[0], n
			if last > 2*first+4096 {
				r.viol("space", "space:accumulates", fmt.Sprintf("table bytes after %d rounds of overwriting every key and compacting the whole range: %d, after the first round: %d - overwritten data is not given back", len(r.measures), last, first))
			}
		}
	case "rot":
		// bit rot at rest: close cleanly, alter bytes inside table data
		// blocks, reopen. From here on a read may fail (checksums are on by
		// default) but must never return a wrong value.
		r.closeDB()
		r.resetFailed()
		r.disk.NextEpoch(simdisk.ImagePowerLoss, 0, false)
		simrt.SetEpoch(r.disk.Epoch + 1000)
		dm := r.applyDamage(&Damage{Current: "keep", Manifest: "keep", Blocks: op.Slot, BlockSel: uint64(op.Ms) + 1, Frac: uint32(op.Ms), FilterOnly: op.Via == "filter"})
		if len(dm) > 0 {
			r.rotted = true
			r.faulty = true
			r.probe("bit-rot")
			r.out.Fired["bitrot/table"] += len(dm)
		}
	case "stats":
		var st leveldb.DBStats
		r.db.Stats(&st)
		r.db.GetProperty("leveldb.stats")
		r.db.GetProperty("leveldb.sstables")
		r.db.SizeOf([]util.Range{{}})
		if op.HasS || op.HasL {
			// bounds inside tables: the offsets are looked up in the tables
			rg := util.Range{}
			if op.HasS {
				rg.Start = append([]byte{}, op.Start...)
			}
			if op.HasL {
				rg.Limit = append([]byte{}, op.Limit...)
			}
			r.db.SizeOf([]util.Range{rg, {Start: rg.Start}, {Limit: rg.Limit}})
		}
		simrt.Progress()
	}
}

func trimStack(s string) string {
	if len(s) > 3000 {
		return s[:3000]
	}
	return s
}

func rangeOfOp(op *Op) util.Range {
	var rg util.Range
	if op.HasS {
		rg.Start = append([]byte{}, op.Start...)
	}
	if op.HasL {
		rg.Limit = append([]byte{}, op.Limit...)
	}
	return rg
}
