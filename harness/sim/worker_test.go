package sim

import (
	"encoding/json"
	"fmt"
	"os"
	"strconv"
	"testing"
	"time"
	"verif/simrt"
)

func envInt(k string, d int) int {
	if v := os.Getenv(k); v != "" {
		n, err := strconv.Atoi(v)
		if err == nil {
			return n
		}
	}
	return d
}

func TestExplore(t *testing.T) {
	prop := os.Getenv("PROP")
	if prop == "" {
		t.Skip("no PROP")
	}
	seed0 := uint64(envInt("SEED", 1))
	n := envInt("N", 100)
	t0 := time.Now()
	var steps int64
	nv := 0
	probes := map[string]int{}
	fingers := map[string]int{}
	for i := 0; i < n; i++ {
		seed := seed0 + uint64(i)
		c := GenCase(prop, seed, false)
		out := RunCase(t, c, false)
		steps += out.Steps
		for k, v := range out.Probes {
			probes[k] += v
		}
		if len(out.Viol) > 0 {
			nv++
			for _, v := range out.Viol {
				fingers[v.Finger]++
				fingers[v.Finger+"/"+c.Knobs.Comparer]++
				if fingers[v.Finger] <= envInt("SHOW", 1) {
					b, _ := json.Marshal(v)
					fmt.Printf("seed %d cmp=%s: %s\n", seed, c.Knobs.Comparer, b)
				}
			}
		}
		if out.StepLimit {
			fmt.Printf("seed %d: step limit\n", seed)
		}
	}
	el := time.Since(t0)
	fmt.Printf("fingers=%v\n", fingers)
	fmt.Printf("prop %s runs=%d viol=%d wall=%v per-run=%v steps=%d\nprobes=%v\n", prop, n, nv, el, el/time.Duration(n), steps, probes)
}

func TestOne(t *testing.T) {
	prop := os.Getenv("PROP")
	if prop == "" {
		t.Skip("no PROP")
	}
	seed := uint64(envInt("SEED", 1))
	c := GenCase(prop, seed, false)
	if os.Getenv("SHOWCASE") != "" {
		b, _ := json.MarshalIndent(c, "", " ")
		fmt.Println(string(b))
	}
	out := RunCase(t, c, true)
	out2 := *out
	b, _ := json.MarshalIndent(out2, "", " ")
	fmt.Println(string(b))
}

func TestShrink(t *testing.T) {
	prop := os.Getenv("PROP")
	if prop == "" {
		t.Skip("no PROP")
	}
	seed := uint64(envInt("SEED", 1))
	c := GenCase(prop, seed, false)
	out := RunCase(t, c, false)
	if len(out.Viol) == 0 {
		fmt.Println("no violation")
		return
	}
	f := out.Viol[0].Finger
	t0 := time.Now()
	m, runs := Shrink(t, c, f, 60*time.Second, 3000)
	fmt.Printf("shrunk %d -> %d in %d runs %v\n", c.Size(), m.Size(), runs, time.Since(t0))
	b, _ := json.MarshalIndent(m, "", " ")
	fmt.Println(string(b))
	out = RunCase(t, m, true)
	b, _ = json.MarshalIndent(out, "", " ")
	fmt.Println(string(b))
}

func TestDet(t *testing.T) {
	prop := os.Getenv("PROP")
	if prop == "" {
		t.Skip("no PROP")
	}
	seed0 := uint64(envInt("SEED", 1))
	n := envInt("N", 20)
	for i := 0; i < n; i++ {
		seed := seed0 + uint64(i)
		c := GenCase(prop, seed, false)
		o1 := RunCase(t, c, false)
		line := fmt.Sprintf("seed %d hash %016x steps %d events %d", seed, o1.Hash, o1.Steps, o1.Events)
		if os.Getenv("TWICE") != "" {
			o2 := RunCase(t, GenCase(prop, seed, false), false)
			if o2.Hash != o1.Hash {
				line += fmt.Sprintf(" INPROC-DIFF %016x steps %d events %d", o2.Hash, o2.Steps, o2.Events)
			}
		}
		fmt.Println(line)
	}
}

func TestTraceDiff(t *testing.T) {
	prop := os.Getenv("PROP")
	if prop == "" {
		t.Skip("no PROP")
	}
	seed := uint64(envInt("SEED", 1))
	os.Setenv("TRACEALL", "1")
	var l1, l2 []string
	simrt.PointLog = &l1
	o1 := RunCase(t, GenCase(prop, seed, false), true)
	simrt.PointLog = &l2
	o2 := RunCase(t, GenCase(prop, seed, false), true)
	simrt.PointLog = nil
	for i := 0; i < len(l1) && i < len(l2); i++ {
		if l1[i] != l2[i] {
			for j := i - 25; j <= i+5 && j < len(l1) && j < len(l2); j++ {
				if j >= 0 {
					fmt.Printf("P%d: %s | %s\n", j, l1[j], l2[j])
				}
			}
			break
		}
	}
	fmt.Println(len(o1.Trace), len(o2.Trace), len(o1.DiskTrace), len(o2.DiskTrace), o1.Hash == o2.Hash)
	for i := 0; i < len(o1.Trace) && i < len(o2.Trace); i++ {
		if o1.Trace[i] != o2.Trace[i] {
			lo := i - 15
			if lo < 0 {
				lo = 0
			}
			for j := lo; j <= i+3 && j < len(o1.Trace) && j < len(o2.Trace); j++ {
				fmt.Printf("%d: %s | %s\n", j, o1.Trace[j], o2.Trace[j])
			}
			break
		}
	}
	for i := 0; i < len(o1.DiskTrace) && i < len(o2.DiskTrace); i++ {
		if o1.DiskTrace[i] != o2.DiskTrace[i] {
			fmt.Printf("disk %d: %s | %s\n", i, o1.DiskTrace[i], o2.DiskTrace[i])
			break
		}
	}
}
