package sim

import "testing"

type CompCase struct{}

func (c *CompCase) size() int { return 0 }

func genComponent(prop string, seed uint64, g *gen, thorough bool) *Case { return nil }
func runComponent(t *testing.T, c *Case, out *RunOut, wantTrace bool)    {}
