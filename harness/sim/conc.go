package sim

import (
	"bytes"
	"fmt"
	"os"
	"sort"
	"strings"
	"time"
	"verif/harness/simdisk"

	"github.com/anishathalye/porcupine"
	"github.com/syndtr/goleveldb/leveldb"
	"github.com/syndtr/goleveldb/leveldb/iterator"
	"github.com/syndtr/goleveldb/leveldb/storage"
	"verif/harness/decode"
	"verif/simrt"
)

// S-CONC: several simulated clients share one DB; the recorded history is
// checked for linearizability (M-lin, porcupine) and, for the writer
// protocol, against the write groups decoded from the journal bytes.

type hop struct {
	client int
	kind   string // write, get, snap, iter
	call   int64
	ret    int64
	recs   []Rec
	failed bool // write returned an error
	closed bool // ... and it was ErrClosed
	key    string
	obs    map[string]uint32 // key -> value id (0 = absent)
	has    map[string]bool   // key -> presence, for reads that return no value (Has)
	full   bool              // obs covers the whole key universe
	done   bool
	tx     bool
	sync   bool
	desc   string
}

type concState struct {
	evseq    int64
	hist     []*hop
	active   int // clients currently inside a call
	valLen   map[uint32]int
	journals map[int64][]byte // journal bytes captured before removal
	closedAt int64
	readOnly bool // some client has switched the DB to read-only
}

func (r *runner) tick() int64 {
	r.cs.evseq++
	return r.cs.evseq
}

func (r *runner) begin(c int, kind string) *hop {
	h := &hop{client: c, kind: kind, call: r.tick()}
	r.cs.hist = append(r.cs.hist, h)
	if r.cs.active > 0 {
		r.probe("overlap")
	}
	r.cs.active++
	return h
}

func (r *runner) end(h *hop) {
	h.ret = r.tick()
	h.done = true
	r.cs.active--
	simrt.Progress()
}

// valID recovers the unique id of a value and verifies its bytes.
func (r *runner) valID(v []byte) (uint32, bool) {
	if len(v) < minValLen || v[0] != 'v' || v[9] != '.' {
		return 0, false
	}
	var id uint32
	if _, err := fmt.Sscanf(string(v[1:9]), "%08x", &id); err != nil {
		return 0, false
	}
	if l, ok := r.cs.valLen[id]; !ok || l != len(v) || !bytes.Equal(V{ID: id, Len: l}.Bytes(), v) {
		return 0, false
	}
	return id, true
}

var poisonKey = []byte("\xff\xffreused-batch")

func (r *runner) mainConc() {
	r.cs = &concState{valLen: map[uint32]int{}, journals: map[int64][]byte{}}
	var walk func(ops []Op)
	walk = func(ops []Op) {
		for _, o := range ops {
			if o.Val.Len > 0 {
				r.cs.valLen[o.Val.ID] = o.Val.Len
			}
			for _, rc := range o.Recs {
				if !rc.Del {
					r.cs.valLen[rc.Val.ID] = rc.Val.Len
				}
			}
			walk(o.Body)
		}
	}
	for _, cl := range r.c.Clients {
		walk(cl)
	}
	// capture journals before goleveldb removes them
	prev := r.disk.H.OnRemove
	r.disk.H.OnRemove = func(fd storage.FileDesc) {
		if fd.Type == storage.TypeJournal {
			if data, ok := r.disk.Data(fd); ok {
				r.cs.journals[fd.Num] = append([]byte(nil), data...)
			}
		}
		if prev != nil {
			prev(fd)
		}
	}
	simrt.SetEpoch(1000)
	if err := r.open(false); err != nil {
		r.viol("open", "open-failed", fmt.Sprintf("Open failed: %v", err))
		return
	}
	var wg simrt.WaitGroup
	for ci := range r.c.Clients {
		ci := ci
		wg.Add(1)
		simrt.GoEpoch(1000, fmt.Sprintf("client%d", ci), func() {
			defer wg.Done()
			r.clientConc(ci, r.c.Clients[ci])
		})
	}
	wg.Wait()
	if r.db != nil && r.c.Prop == "C20" {
		// also when a reader has tripped over the record already
		if v, err := r.db.Get(poisonKey, nil); err == nil {
			r.viol("arg-modified", "arg-modified:batch-retained", fmt.Sprintf("a record the caller put into its batch after Write had returned was written to the DB (%q): Write returned while the DB still referenced the batch", v))
		}
	}
	if len(r.out.Viol) > 0 {
		simrt.Abort("violation")
	}
	if r.db != nil {
		r.closeDB()
	}
	for _, fd := range r.disk.ListFiles(storage.TypeJournal) {
		if data, ok := r.disk.Data(fd); ok {
			r.cs.journals[fd.Num] = append([]byte(nil), data...)
		}
	}
}

func (r *runner) clientConc(ci int, ops []Op) {
	if r.c.Slow != nil {
		for _, s := range r.c.Slow {
			if s == ci {
				simrt.Starve(true)
			}
		}
	}
	var prevSnap *leveldb.Snapshot
	var prevObs map[string]uint32
	var prevKeys []Rec
	recheck := func() {
		s, obs := prevSnap, prevObs
		prevSnap = nil
		defer s.Release()
		for _, k := range prevKeys {
			want, seen := obs[string(k.Key)]
			if !seen {
				continue
			}
			v, err := s.Get(k.Key, nil)
			var got uint32
			switch {
			case err == leveldb.ErrNotFound:
			case err == nil:
				got, _ = r.valID(v)
			default:
				return // closed meanwhile, or an injected failure
			}
			if got != want {
				r.viol("snap", "snap-unstable", fmt.Sprintf("client %d: the same snapshot returned value id %d for %q, and id %d when read again later", ci, want, k.Key, got))
				return
			}
		}
		r.probe("snapshot-reread")
	}
	defer func() {
		if prevSnap != nil {
			recheck()
		}
	}()
	for i := range ops {
		if len(r.out.Viol) > 0 {
			return
		}
		op := &ops[i]
		db := r.db
		if db == nil {
			return
		}
		if prevSnap != nil && op.K != "snap" && i > 0 && ops[i-1].K != "snap" {
			recheck()
		}
		switch op.K {
		case "put", "del", "write":
			h := r.begin(ci, "write")
			h.recs = opRecs(op)
			h.desc = op.K
			h.sync = op.Sync
			simrt.SetOp(op.K)
			var err error
			switch op.K {
			case "put":
				err = db.Put(append([]byte(nil), op.Key...), op.Val.Bytes(), r.wo(op))
			case "del":
				err = db.Delete(append([]byte(nil), op.Key...), r.wo(op))
			default:
				b := new(leveldb.Batch)
				for _, rc := range op.Recs {
					if rc.Del {
						b.Delete(rc.Key)
					} else {
						b.Put(rc.Key, rc.Val.Bytes())
					}
				}
				dump := append([]byte(nil), b.Dump()...)
				err = db.Write(b, r.wo(op))
				if !bytes.Equal(dump, b.Dump()) {
					// e.g. records of merged writers left in the leader's batch
					r.viol("arg-modified", "arg-modified:batch", fmt.Sprintf("client %d: Write changed the caller's batch (%d -> %d bytes)", ci, len(dump), len(b.Dump())))
				}
				if r.c.Prop == "C20" {
					// the batch is the caller's again: reuse it at once. If the
					// DB still holds it (e.g. a merge leader that has not
					// applied it yet), the poison record gets written
					b.Reset()
					b.Put(poisonKey, []byte("reused-batch"))
					r.probe("batch-reused-after-write")
				}
			}
			simrt.SetOp("")
			if err != nil {
				h.failed = true
				h.closed = err == leveldb.ErrClosed
				if !h.closed && !r.faulty && !(r.cs.readOnly && err == leveldb.ErrReadOnly) {
					r.viol("write-err", "write-err:"+errClass(err), fmt.Sprintf("client %d: %s returned %v in a fault-free run", ci, op.K, err))
				}
			}
			r.end(h)
			if err == nil && (r.c.Prop == "C10" || r.c.Prop == "C05" || r.c.Prop == "C20") && !r.isLarge(h) {
				r.checkLogged(ci, h)
			}
		case "get":
			h := r.begin(ci, "get")
			h.key = string(op.Key)
			if (i+ci)%4 == 3 {
				// Has: the same read, answering presence only
				simrt.SetOp("has")
				ok, err := db.Has(append([]byte(nil), op.Key...), nil)
				simrt.SetOp("")
				switch {
				case err == nil:
					h.has = map[string]bool{h.key: ok}
				case err == leveldb.ErrClosed:
					h.failed = true
				default:
					h.failed = true
					if !r.faulty {
						r.viol("get", "get:error", fmt.Sprintf("client %d: Has returned %v", ci, err))
					}
				}
				r.end(h)
				continue
			}
			simrt.SetOp("get")
			v, err := db.Get(append([]byte(nil), op.Key...), nil)
			simrt.SetOp("")
			switch {
			case err == leveldb.ErrNotFound:
				h.obs = map[string]uint32{h.key: 0}
			case err == leveldb.ErrClosed:
				h.failed = true
			case err != nil:
				h.failed = true
				if !r.faulty {
					r.viol("get", "get:error", fmt.Sprintf("client %d: Get returned %v", ci, err))
				}
			default:
				id, ok := r.valID(v)
				if !ok {
					r.viol("lin", "lin:invented-value", fmt.Sprintf("client %d: Get(%q) returned bytes that were never written: %s", ci, op.Key, descVal(true, v)))
				}
				h.obs = map[string]uint32{h.key: id}
			}
			r.end(h)
		case "snap":
			// GetSnapshot is the operation; what is read through it later
			// is its output.
			h := r.begin(ci, "snap")
			simrt.SetOp("GetSnapshot")
			s, err := db.GetSnapshot()
			simrt.SetOp("")
			r.end(h)
			if err != nil {
				h.failed = true
				continue
			}
			h.obs = map[string]uint32{}
			for _, k := range op.Recs {
				simrt.Point("harness.snapread")
				v, err := s.Get(k.Key, nil)
				if err == leveldb.ErrNotFound {
					h.obs[string(k.Key)] = 0
				} else if err == nil {
					id, ok := r.valID(v)
					if !ok {
						r.viol("lin", "lin:invented-value", fmt.Sprintf("client %d: snapshot Get(%q) returned bytes that were never written", ci, k.Key))
					}
					h.obs[string(k.Key)] = id
				} else if err != leveldb.ErrClosed && !r.faulty {
					r.viol("snapget", "snapget:error", fmt.Sprintf("snapshot Get returned %v", err))
				} else {
					break
				}
				simrt.Progress()
			}
			// the snapshot stays open while the client performs its next
			// operation and is then read once more: a frozen view gives the
			// same answers, whatever has been committed in between
			if prevSnap != nil {
				recheck()
			}
			prevSnap, prevObs, prevKeys = s, h.obs, op.Recs
		case "iter":
			h := r.begin(ci, "iter")
			simrt.SetOp("NewIterator")
			it := db.NewIterator(nil, nil)
			simrt.SetOp("")
			r.end(h)
			obs := map[string]uint32{}
			var prevKey []byte
			n := 0
			for ok := it.First(); ok; ok = it.Next() {
				k := append([]byte(nil), it.Key()...)
				if n > 0 && r.model.cmp(prevKey, k) >= 0 {
					r.viol("lin", "lin:iter-order", fmt.Sprintf("client %d: iterator keys not increasing: %q then %q", ci, prevKey, k))
				}
				prevKey = k
				n++
				id, okv := r.valID(it.Value())
				if !okv {
					r.viol("lin", "lin:invented-value", fmt.Sprintf("client %d: iterator returned bytes that were never written for %q", ci, k))
				}
				obs[string(k)] = id
				simrt.Progress()
			}
			err := it.Error()
			it.Release()
			if err == nil {
				h.obs = obs
				h.full = true
			} else if err != leveldb.ErrClosed && !r.faulty {
				r.viol("iter", "iter:error", fmt.Sprintf("iterator returned %v", err))
			} else {
				h.failed = true
			}
		case "tx":
			simrt.SetOp("OpenTransaction")
			tr, err := db.OpenTransaction()
			simrt.SetOp("")
			simrt.Progress()
			if err != nil {
				continue
			}
			r.probe("tx")
			var recs []Rec
			bad := false
			// an iterator created part-way through the body must keep showing
			// what the transaction had written by then, whatever the
			// transaction writes (and flushes) afterwards: nobody else can
			// write while the transaction is open
			var txIt iterator.Iterator
			own := map[string]Rec{}
			itAt := -1
			if op.Keep && len(op.Body) > 1 {
				itAt = len(op.Body) / 2
			}
			for bi := range op.Body {
				if bi == itAt {
					txIt = tr.NewIterator(nil, nil)
					for _, rc := range recs {
						own[string(rc.Key)] = rc
					}
					r.probe("tx-iter-among-writers")
				}
				b := &op.Body[bi]
				var e error
				switch b.K {
				case "put":
					e = tr.Put(b.Key, b.Val.Bytes(), nil)
				case "del":
					e = tr.Delete(b.Key, nil)
				default:
					continue
				}
				simrt.Progress()
				if e != nil {
					bad = true
					break
				}
				recs = append(recs, opRecs(b)...)
			}
			if txIt != nil {
				got := map[string][]byte{}
				for ok := txIt.First(); ok; ok = txIt.Next() {
					got[string(txIt.Key())] = append([]byte(nil), txIt.Value()...)
				}
				ierr := txIt.Error()
				txIt.Release()
				if ierr == nil && !bad {
					ks := make([]string, 0, len(own))
					for k := range own {
						ks = append(ks, k)
					}
					sort.Strings(ks)
					for _, k := range ks {
						rc := own[k]
						v, ok := got[k]
						if rc.Del && ok || !rc.Del && (!ok || !bytes.Equal(v, rc.Val.Bytes())) {
							r.viol("txiter", "txiter:own-writes", fmt.Sprintf("client %d: an iterator created inside the transaction after it had written %q no longer shows that write once the transaction has written more (found=%v)", ci, k, ok))
							break
						}
					}
				} else if ierr != nil && !r.faulty {
					r.viol("txiter", "txiter:error", fmt.Sprintf("client %d: transaction iterator failed: %v", ci, ierr))
				}
			}
			if bad || !op.Commit {
				tr.Discard()
				simrt.Progress()
				continue
			}
			h := r.begin(ci, "write")
			h.recs = recs
			h.tx = true
			h.desc = "tx-commit"
			simrt.SetOp("Commit")
			err = tr.Commit()
			simrt.SetOp("")
			if err != nil {
				h.failed = true
				h.closed = err == leveldb.ErrClosed
				tr.Discard()
			}
			r.end(h)
		case "txleave":
			// open a transaction, write to it and leave it open
			simrt.SetOp("OpenTransaction")
			tr, err := db.OpenTransaction()
			simrt.SetOp("")
			if err == nil {
				tr.Put(op.Key, op.Val.Bytes(), nil)
				r.probe("tx-left-open-at-close")
			}
			simrt.Progress()
		case "setro":
			simrt.SetOp("SetReadOnly")
			if err := db.SetReadOnly(); err == nil {
				r.cs.readOnly = true
				r.probe("setro-among-writers")
			}
			simrt.SetOp("")
			simrt.Progress()
		case "compact":
			simrt.SetOp("CompactRange")
			db.CompactRange(rangeOfOp(op))
			simrt.SetOp("")
			simrt.Progress()
		case "close":
			simrt.SetOp("Close")
			r.cs.closedAt = r.tick()
			db.Close()
			simrt.SetOp("")
			simrt.Progress()
			r.db = nil
			r.probe("close-race")
			return
		case "yield":
			simrt.Yield("harness.yield")
		}
	}
}

// checkLogged: at the moment a (journaled) write is acknowledged, its group
// has been logged - every value of it is in some journal, live or already
// retired by a flush.
func (r *runner) checkLogged(ci int, h *hop) {
	if h.sync && !r.knobs.NoSync {
		r.checkSynced(ci, h)
	}
	for _, rc := range h.recs {
		if rc.Del {
			continue
		}
		needle := []byte(fmt.Sprintf("v%08x.", rc.Val.ID))
		found := false
		for _, fd := range r.disk.ListFiles(storage.TypeJournal) {
			if data, ok := r.disk.Data(fd); ok && bytes.Contains(data, needle) {
				found = true
				break
			}
		}
		if !found {
			for _, data := range r.cs.journals {
				if bytes.Contains(data, needle) {
					found = true
					break
				}
			}
		}
		if !found {
			// the value may straddle a block boundary of the journal framing:
			// look into the reassembled records
			search := func(data []byte) bool {
				recs, _, _ := decode.Journal(data)
				for _, jr := range recs {
					if bytes.Contains(jr.Data, needle) {
						return true
					}
				}
				return false
			}
			for _, fd := range r.disk.ListFiles(storage.TypeJournal) {
				if data, ok := r.disk.Data(fd); ok && search(data) {
					found = true
					break
				}
			}
			if !found {
				var nums []int64
				for n := range r.cs.journals {
					nums = append(nums, n)
				}
				sort.Slice(nums, func(i, j int) bool { return nums[i] < nums[j] })
				for _, n := range nums {
					if search(r.cs.journals[n]) {
						found = true
						break
					}
				}
			}
		}
		if !found {
			r.viol("wgroup", "wgroup:ack-before-log", fmt.Sprintf("client %d: write of %q (value id %d) was acknowledged but its group has not been logged: it is in no journal", ci, []byte(rc.Key), rc.Val.ID))
			return
		}
		r.probe("ack-logged")
	}
}

// checkSynced: a write acknowledged with the sync option is durable at that
// moment - its journal record lies within the synced prefix of its journal
// (or the journal was already retired by a flush, whose table is synced).
func (r *runner) checkSynced(ci int, h *hop) {
	for _, rc := range h.recs {
		if rc.Del {
			continue
		}
		needle := []byte(fmt.Sprintf("v%08x.", rc.Val.ID))
		for _, fd := range r.disk.ListFiles(storage.TypeJournal) {
			data, _ := r.disk.Data(fd)
			recs, _, _ := decode.Journal(data)
			for _, jr := range recs {
				if bytes.Contains(jr.Data, needle) {
					if r.disk.Synced(fd) < jr.End {
						r.viol("wgroup", "wgroup:sync-ack-not-durable", fmt.Sprintf("client %d: write of %q was acknowledged with Sync but its journal record [%d,%d) of %s is beyond the synced prefix (%d bytes)", ci, []byte(rc.Key), jr.Start, jr.End, fd, r.disk.Synced(fd)))
					}
					r.probe("sync-ack-durable")
					return
				}
			}
		}
		return
	}
}

// ---- linearizability ----

type linIn struct {
	h *hop
}

func encState(m map[string]uint32) string {
	ks := make([]string, 0, len(m))
	for k, v := range m {
		if v != 0 {
			ks = append(ks, k)
		}
	}
	sort.Strings(ks)
	var b strings.Builder
	for _, k := range ks {
		fmt.Fprintf(&b, "%x=%d;", k, m[k])
	}
	return b.String()
}

func decState(s string) map[string]uint32 {
	m := map[string]uint32{}
	for _, part := range strings.Split(s, ";") {
		if part == "" {
			continue
		}
		var k []byte
		var v uint32
		i := strings.IndexByte(part, '=')
		fmt.Sscanf(part[:i], "%x", &k)
		fmt.Sscanf(part[i+1:], "%d", &v)
		m[string(k)] = v
	}
	return m
}

func applyRecs(m map[string]uint32, recs []Rec) {
	for _, rc := range recs {
		if rc.Del {
			delete(m, string(rc.Key))
		} else {
			m[string(rc.Key)] = rc.Val.ID
		}
	}
}

var linModel = porcupine.Model{
	Init: func() interface{} { return "" },
	Step: func(state, input, output interface{}) (bool, interface{}) {
		h := input.(linIn).h
		st := state.(string)
		switch h.kind {
		case "write":
			m := decState(st)
			applyRecs(m, h.recs)
			return true, encState(m)
		default:
			m := decState(st)
			for k, v := range h.obs {
				if m[k] != v {
					return false, st
				}
			}
			for k, present := range h.has {
				if (m[k] != 0) != present {
					return false, st
				}
			}
			if h.full {
				for k, v := range m {
					if v != 0 {
						if _, ok := h.obs[k]; !ok {
							return false, st
						}
					}
				}
			}
			return true, st
		}
	},
	DescribeOperation: func(input, output interface{}) string {
		h := input.(linIn).h
		return fmt.Sprintf("%s%v", h.kind, h.obs)
	},
}

// checkLin runs after the simulation (outside the bubble).
func (r *runner) checkLin() {
	cs := r.cs
	if cs == nil || len(r.out.Viol) > 0 || r.faulty {
		// under injected faults only the liveness oracles apply (C09)
		return
	}
	groups := r.journalGroups()
	var ops []porcupine.Operation
	maxT := cs.evseq + 1
	// merged members of one journal record form one atomic write
	byGroup := map[int][]*hop{}
	var singles []*hop
	for _, h := range cs.hist {
		if h.kind != "write" {
			continue
		}
		if h.failed {
			continue // handled below
		}
		if !h.done {
			continue
		}
		if g, ok := groups.ofHop[h]; ok && r.c.Prop == "C10" {
			byGroup[g] = append(byGroup[g], h)
		} else {
			singles = append(singles, h)
		}
	}
	var gids []int
	for g := range byGroup {
		gids = append(gids, g)
	}
	sort.Ints(gids)
	for _, g := range gids {
		hs := byGroup[g]
		if len(hs) == 1 {
			singles = append(singles, hs[0])
			continue
		}
		r.probe("merged-group")
		// order members as the journal record lists them
		sort.Slice(hs, func(i, j int) bool { return groups.pos[hs[i]] < groups.pos[hs[j]] })
		call, ret := int64(0), maxT
		var recs []Rec
		for _, h := range hs {
			if h.call > call {
				call = h.call
			}
			if h.ret < ret {
				ret = h.ret
			}
			recs = append(recs, h.recs...)
		}
		if call >= ret {
			d := ""
			for _, h := range hs {
				d += fmt.Sprintf("\n  c%d [%d,%d] %s %d recs failed=%v", h.client, h.call, h.ret, h.desc, len(h.recs), h.failed)
			}
			r.viol("wgroup", "wgroup:not-concurrent", fmt.Sprintf("journal record holds writes of %d writers whose calls do not overlap in time:%s", len(hs), d))
			return
		}
		ops = append(ops, porcupine.Operation{ClientId: hs[0].client, Input: linIn{&hop{kind: "write", recs: recs}}, Call: call, Return: ret})
	}
	for _, h := range singles {
		ops = append(ops, porcupine.Operation{ClientId: h.client, Input: linIn{h}, Call: h.call, Return: h.ret})
	}
	for _, h := range cs.hist {
		if h.kind == "write" || h.failed || h.obs == nil && h.has == nil {
			continue
		}
		ret := h.ret
		if !h.done {
			ret = maxT
		}
		ops = append(ops, porcupine.Operation{ClientId: h.client, Input: linIn{h}, Call: h.call, Return: ret})
	}
	// A write that returned an error (ErrClosed while racing Close) may or may
	// not have been applied (C08: wholly applied or wholly absent). If one of
	// its values was observed it is an applied write whose effect may take
	// place any time after its call; otherwise it cannot matter to any read.
	seen := map[uint32]bool{}
	for _, h := range cs.hist {
		for _, v := range h.obs {
			seen[v] = true
		}
	}
	for _, h := range cs.hist {
		if h.kind != "write" || !h.failed {
			continue
		}
		applied, hasDel := false, false
		for _, rc := range h.recs {
			if rc.Del {
				hasDel = true
			} else if seen[rc.Val.ID] {
				applied = true
			}
		}
		if hasDel {
			// the effect of a failed delete cannot be attributed: inconclusive
			r.probe("lin-skipped-failed-delete")
			return
		}
		if applied {
			ops = append(ops, porcupine.Operation{ClientId: h.client, Input: linIn{h}, Call: h.call, Return: maxT})
		}
	}
	r.out.HistLen = len(ops)
	if len(ops) == 0 {
		return
	}
	res := porcupine.CheckOperationsTimeout(linModel, ops, 20*time.Second)
	switch res {
	case porcupine.Illegal:
		r.viol("lin", "lin:not-linearizable", "history is not linearizable against the sequential map:\n"+r.describeHist())
	case porcupine.Unknown:
		r.probe("lin-inconclusive")
	default:
		r.probe("lin-ok")
	}
}

func (r *runner) describeHist() string {
	var b strings.Builder
	for i, h := range r.cs.hist {
		if i > 80 {
			b.WriteString("  ...\n")
			break
		}
		fmt.Fprintf(&b, "  c%d [%d,%d] %s", h.client, h.call, h.ret, h.kind)
		if h.kind == "write" {
			for _, rc := range h.recs {
				if rc.Del {
					fmt.Fprintf(&b, " del(%q)", []byte(rc.Key))
				} else {
					fmt.Fprintf(&b, " %q=%d", []byte(rc.Key), rc.Val.ID)
				}
			}
			if h.failed {
				b.WriteString(" FAILED")
			}
		} else {
			ks := make([]string, 0, len(h.obs))
			for k := range h.obs {
				ks = append(ks, k)
			}
			sort.Strings(ks)
			for _, k := range ks {
				fmt.Fprintf(&b, " %q=%d", k, h.obs[k])
			}
			if h.full {
				b.WriteString(" (full scan)")
			}
		}
		b.WriteString("\n")
	}
	return b.String()
}

// ---- write groups from the journal bytes (C10) ----

type groupInfo struct {
	ofHop map[*hop]int
	pos   map[*hop]int
	n     int
}

// isLarge reports whether DB.Write routes the batch through a transaction.
func (r *runner) isLarge(h *hop) bool {
	wb := r.knobs.WriteBuffer
	if wb <= 0 {
		wb = 4 << 20
	}
	if h.desc != "write" || r.knobs.DisableLargeBatchTx {
		return false
	}
	size := 0
	for _, rc := range h.recs {
		size += len(rc.Key) + 8
		if !rc.Del {
			size += rc.Val.Len
		}
	}
	return size > wb
}

func recEq(a Rec, b decode.BatchRec, id uint32, okID bool) bool {
	if a.Del != b.Del || !bytes.Equal(a.Key, b.Key) {
		return false
	}
	if a.Del {
		return true
	}
	return okID && a.Val.ID == id
}

func (r *runner) journalGroups() *groupInfo {
	gi := &groupInfo{ofHop: map[*hop]int{}, pos: map[*hop]int{}}
	cs := r.cs
	var writes []*hop
	for _, h := range cs.hist {
		if h.kind == "write" && !h.tx {
			writes = append(writes, h)
		}
	}
	var nums []int64
	for n := range cs.journals {
		nums = append(nums, n)
	}
	sort.Slice(nums, func(i, j int) bool { return nums[i] < nums[j] })
	seenVal := map[uint32]int{}
	var lastEnd uint64
	first := true
	g := 0
	for _, n := range nums {
		recs, _, _ := decode.Journal(cs.journals[n])
		for _, jr := range recs {
			seq, brecs, err := decode.Batch(jr.Data)
			if err != nil {
				r.viol("wgroup", "wgroup:bad-record", fmt.Sprintf("journal %06d.log holds an undecodable record: %v", n, err))
				return gi
			}
			if !first && seq < lastEnd {
				r.viol("wgroup", "wgroup:seq-overlap", fmt.Sprintf("journal record with sequence %d overlaps the previous group ending at %d: two groups were logged at once or a sequence number was reused", seq, lastEnd))
				return gi
			}
			first = false
			lastEnd = seq + uint64(len(brecs))
			g++
			ids := make([]uint32, len(brecs))
			oks := make([]bool, len(brecs))
			for i, br := range brecs {
				if br.Del {
					continue
				}
				id, ok := r.valID(br.Val)
				if !ok {
					r.viol("wgroup", "wgroup:invented", fmt.Sprintf("journal holds a value that no writer wrote (key %q)", br.Key))
					return gi
				}
				ids[i], oks[i] = id, true
				seenVal[id]++
				if seenVal[id] > 1 {
					r.viol("wgroup", "wgroup:duplicated", fmt.Sprintf("value id %d (key %q) was logged twice", id, br.Key))
					return gi
				}
			}
			// Segment the record into the batches of individual writers:
			// batches are appended whole in merge order, and each client's
			// writes reach the journal in program order, so at any point the
			// candidates are the clients' next not yet attributed writes.
			matchAt := func(h *hop, p int) bool {
				if len(h.recs) == 0 || p+len(h.recs) > len(brecs) {
					return false
				}
				for k, rc := range h.recs {
					if !recEq(rc, brecs[p+k], ids[p+k], oks[p+k]) {
						return false
					}
				}
				return true
			}
			nextOf := func(used map[*hop]bool) []*hop {
				var out []*hop
				seenClient := map[int]bool{}
				for _, h := range writes {
					if _, done := gi.ofHop[h]; done || used[h] {
						continue
					}
					if seenClient[h.client] {
						continue
					}
					out = append(out, h)
					// a failed write, or one routed through a transaction,
					// may be absent from the journal: the client's next
					// write is a candidate too
					if !(h.failed || r.isLarge(h)) {
						seenClient[h.client] = true
					}
				}
				return out
			}
			var members []*hop
			var solve func(p int, used map[*hop]bool, acc []*hop) bool
			solve = func(p int, used map[*hop]bool, acc []*hop) bool {
				if p == len(brecs) {
					members = append([]*hop(nil), acc...)
					return true
				}
				for _, h := range nextOf(used) {
					if matchAt(h, p) {
						used[h] = true
						if solve(p+len(h.recs), used, append(acc, h)) {
							return true
						}
						delete(used, h)
					}
				}
				return false
			}
			if !solve(0, map[*hop]bool{}, nil) {
				r.viol("wgroup", "wgroup:unattributable", fmt.Sprintf("journal record (seq %d, %d entries) cannot be split into whole batches of the writers in their program order", seq, len(brecs)))
				return gi
			}
			p := 0
			for _, h := range members {
				gi.ofHop[h] = g
				gi.pos[h] = p
				p += len(h.recs)
			}
			// every member of a group receives the group's result
			var res []bool
			for _, h := range members {
				if h.done {
					res = append(res, h.failed)
				}
			}
			for i := 1; i < len(res); i++ {
				if res[i] != res[0] {
					r.viol("wgroup", "wgroup:mixed-results", "writers merged into one journal record received different results")
					return gi
				}
			}
		}
	}
	gi.n = g
	if os.Getenv("DEBUGJOURNAL") != "" {
		for _, n := range nums {
			recs, stop, clean := decode.Journal(cs.journals[n])
			fmt.Printf("journal %d: %d bytes, %d records, stop=%d clean=%v\n", n, len(cs.journals[n]), len(recs), stop, clean)
		}
	}
	// every acknowledged journaled write is in exactly one record
	for _, h := range writes {
		if !h.done || len(h.recs) == 0 {
			continue
		}
		_, in := gi.ofHop[h]
		if !h.failed && !in && !r.isLarge(h) {
			r.viol("wgroup", "wgroup:lost", fmt.Sprintf("client %d: acknowledged write [%d,%d] (%d records) is in no journal record", h.client, h.call, h.ret, len(h.recs)))
			return gi
		}
	}
	return gi
}

// ---- concurrent writers + crash (C04) ----

// Each client writes only its own keys, so that per key the writes are
// totally ordered by program order: after the crash a key must hold the last
// sync-acknowledged write to it or a later one.
func (r *runner) mainConcCrash() {
	r.cs = &concState{valLen: map[uint32]int{}, journals: map[int64][]byte{}}
	for _, f := range r.c.Faults {
		if f.Kind != "crash" {
			r.errFaults = true
		}
	}
	type wrec struct {
		id    uint32
		acked bool
		sync  bool
	}
	perKey := map[string][]*wrec{}
	ev := &simrt.Event{}
	r.disk.H.OnCrash = func(f *simdisk.Fault) {
		r.crashed = true
		r.crashF = f
		ev.Set()
		simrt.KillEpoch(r.disk.Epoch + 1000)
	}
	simrt.GoEpoch(r.disk.Epoch+1000, "client", func() {
		defer ev.Set()
		if err := r.openRetry(); err != nil {
			r.viol("open", "open-failed", fmt.Sprintf("Open failed: %v", err))
			return
		}
		var wg simrt.WaitGroup
		for ci := range r.c.Clients {
			ci := ci
			wg.Add(1)
			simrt.Go(fmt.Sprintf("client%d", ci), func() {
				defer wg.Done()
				db := r.db
				for i := range r.c.Clients[ci] {
					op := &r.c.Clients[ci][i]
					recs := opRecs(op)
					var ws []*wrec
					for _, rc := range recs {
						w := &wrec{id: rc.Val.ID, sync: op.Sync && !r.knobs.NoSync}
						if rc.Del {
							w.id = 0
						}
						perKey[string(rc.Key)] = append(perKey[string(rc.Key)], w)
						ws = append(ws, w)
						r.cs.valLen[rc.Val.ID] = rc.Val.Len
					}
					var err error
					simrt.SetOp(op.K)
					switch op.K {
					case "put":
						err = db.Put(op.Key, op.Val.Bytes(), r.wo(op))
					case "del":
						err = db.Delete(op.Key, r.wo(op))
					case "tx":
						// an explicit transaction; a failed Commit is followed
						// by Discard, as the API documents
						var tr *leveldb.Transaction
						tr, err = db.OpenTransaction()
						if err == nil {
							r.probe("tx")
							for _, rc := range recs {
								if e := tr.Put(rc.Key, rc.Val.Bytes(), nil); e != nil {
									err = e
									break
								}
							}
							if err == nil {
								err = tr.Commit()
							}
							if err != nil {
								r.probe("tx-commit-failed")
								tr.Discard()
							}
						}
					default:
						b := new(leveldb.Batch)
						for _, rc := range recs {
							if rc.Del {
								b.Delete(rc.Key)
							} else {
								b.Put(rc.Key, rc.Val.Bytes())
							}
						}
						err = db.Write(b, r.wo(op))
					}
					simrt.SetOp("")
					simrt.Progress()
					r.probe("overlap")
					if op.K == "close" {
						r.probe("close-race")
						db.Close()
						simrt.Progress()
						return
					}
					if op.K == "sleep" {
						simrt.IdleFor(time.Duration(op.Ms) * time.Millisecond)
						continue
					}
					if err != nil {
						if r.errFaults {
							// a failed write is not acknowledged: it may or may
							// not be there after the reopen
							r.probe("write-failed")
							if err == leveldb.ErrClosed {
								return
							}
							continue
						}
						if err == leveldb.ErrClosed {
							return
						}
						r.viol("write-err", "write-err:"+errClass(err), fmt.Sprintf("client %d: %s returned %v", ci, op.K, err))
						return
					}
					for _, w := range ws {
						w.acked = true
					}
					r.out.OpsDone++
				}
			})
		}
		wg.Wait()
		if r.db != nil && len(r.out.Viol) == 0 {
			r.releaseHandles()
			simrt.SetOp("Close")
			r.db.Close() // returns ErrClosed if a client closed already
			simrt.SetOp("")
			simrt.Progress()
			r.db = nil
		}
	})
	ev.Wait()
	if len(r.out.Viol) > 0 {
		simrt.Abort("violation")
	}
	if r.crashed {
		r.crashes++
		r.probe("crash")
		r.db = nil
		mode := simdisk.ImagePowerLoss
		if r.knobs.NoSync {
			mode = simdisk.ImageProcessDeath
		}
		r.disk.NextEpoch(mode, r.crashF.Img, true)
		r.mon.epochStart()
	} else {
		r.disk.NextEpoch(simdisk.ImagePowerLoss, 0, false)
	}
	simrt.SetEpoch(r.disk.Epoch + 1000)
	r.disk.Healed = true
	if err := r.openRetry(); err != nil {
		r.viol("open", "open-failed", fmt.Sprintf("Open after the crash / close failed: %v", err))
		simrt.Abort("violation")
	}
	var keys []string
	for k := range perKey {
		keys = append(keys, k)
	}
	sort.Strings(keys)
	for _, k := range keys {
		ws := perKey[k]
		v, err := r.db.Get([]byte(k), nil)
		simrt.Progress()
		var got uint32
		switch {
		case err == leveldb.ErrNotFound:
		case err != nil:
			r.viol("get", "get:error", fmt.Sprintf("Get(%q) after the crash returned %v", k, err))
			continue
		default:
			id, ok := r.valID(v)
			if !ok {
				r.viol("scan", "scan:invented", fmt.Sprintf("key %q holds bytes that were never written: %s", k, descVal(true, v)))
				continue
			}
			got = id
		}
		// index of the last write that must have survived: after a crash the
		// last one acknowledged with Sync, after a clean close the last one
		// acknowledged at all
		minIdx := -1
		for i, w := range ws {
			if w.acked && (w.sync || !r.crashed) {
				minIdx = i
			}
		}
		okk := minIdx < 0 && got == 0
		for i, w := range ws {
			if i >= minIdx && w.id == got {
				okk = true
			}
		}
		if !okk {
			what, f := "after the crash", "scan:sync-write-lost"
			if !r.crashed {
				what, f = "after close and reopen", "scan:acked-write-lost"
			}
			r.viol("scan", f, fmt.Sprintf("key %q %s: got value id %d, but write #%d to it (of %d) was acknowledged and only it or a later write may be there", k, what, got, minIdx, len(ws)))
		}
	}
	if len(r.out.Viol) > 0 {
		simrt.Abort("violation")
	}
	r.closeDB()
}

// genConcFault: concurrent writers on disjoint keys under error faults, one of
// them possibly closing the DB, then reopen (C08).
// openRetry opens the DB, trying again while the failure is an injected fault.
func (r *runner) openRetry() error {
	var err error
	for i := 0; i < 50; i++ {
		if err = r.open(false); err == nil || !isInjected(err) {
			return err
		}
		r.probe("open-failed-by-fault")
	}
	r.disk.Healed = true
	return r.open(false)
}

func genConcFault(prop string, seed uint64, g *gen) *Case {
	c := genConcCrash(seed, g)
	r := g.r
	c.Prop = prop
	c.Faults = nil
	g.faultPlan(c, "C08")
	for _, f := range c.Faults {
		if r.p(0.6) {
			f.FT = []int{int(storage.TypeJournal), int(storage.TypeManifest)}[r.intn(2)]
			f.Op = []string{simdisk.OpWrite, simdisk.OpSync}[r.intn(2)]
			f.Nth = r.rng(1, 25)
		}
	}
	// oversized batches take the transaction route
	if r.p(0.5) || prop == "C11" && r.p(0.6) {
		c.Knobs.WriteBuffer = r.pick(512, 1024)
		c.Knobs.DisableLargeBatchTx = false
	}
	if r.p(0.4) {
		ci := r.intn(len(c.Clients))
		at := r.intn(len(c.Clients[ci]) + 1)
		c.Clients[ci] = append(c.Clients[ci][:at:at], Op{K: "close"})
	}
	if r.p(0.3) || prop == "C11" || prop == "C09" {
		// Close racing a transaction commit that is being retried: client 0
		// commits an explicit transaction while manifest syncs fail, another
		// client sleeps a little and closes the DB
		var recs []Rec
		for j := r.rng(1, 6); j > 0; j-- {
			recs = append(recs, Rec{Key: B(fmt.Sprintf("c0-%d", r.intn(3))), Val: g.val(400)})
		}
		at := r.intn(len(c.Clients[0]) + 1)
		c.Clients[0] = append(c.Clients[0][:at:at], append([]Op{{K: "tx", Recs: recs}}, c.Clients[0][at:]...)...)
		c.Clients = append(c.Clients, []Op{{K: "sleep", Ms: r.pick(1, 300, 900, 1500, 2500)}, {K: "close"}})
		c.Faults = append(c.Faults, &simdisk.Fault{Kind: "err", Op: simdisk.OpSync, FT: int(storage.TypeManifest), Nth: r.rng(1, 8), Count: r.rng(1, 7), Epoch: -1})
	}
	return c
}

func genConcCrash(seed uint64, g *gen) *Case {
	r := g.r
	c := &Case{Prop: "C04", Seed: seed, Scenario: "conccrash"}
	c.Knobs = g.knobs("bytewise")
	g.cmp = comparerByName("bytewise").Compare
	c.Knobs.WriteBuffer = r.pick(1024, 4096, 65536, 1<<20)
	c.Knobs.NoWriteMerge = false
	c.Knobs.NoSync = false
	g.wb = c.Knobs.WriteBuffer
	c.Sched = g.sched()
	if c.Sched.Strategy == 0 && c.Sched.YieldP < 0.002 {
		c.Sched.YieldP = []float64{0.002, 0.01, 0.05, 0.2}[r.intn(4)]
	}
	c.Sched.StallP = 0
	nc := r.rng(2, 6)
	for ci := 0; ci < nc; ci++ {
		var ops []Op
		nk := r.rng(1, 4)
		key := func() B { return B(fmt.Sprintf("c%d-%d", ci, r.intn(nk))) }
		for i := r.rng(3, 20); i > 0; i-- {
			sync := r.p(0.35)
			switch x := r.intn(10); {
			case x < 6:
				v := g.val(300)
				ops = append(ops, Op{K: "put", Key: key(), Val: v, Sync: sync})
			case x < 7:
				ops = append(ops, Op{K: "del", Key: key(), Sync: sync})
			default:
				var recs []Rec
				for j := r.rng(1, 4); j > 0; j-- {
					recs = append(recs, Rec{Key: key(), Val: g.val(300)})
				}
				ops = append(ops, Op{K: "write", Recs: recs, Sync: sync})
			}
		}
		c.Clients = append(c.Clients, ops)
	}
	if r.p(0.4) {
		c.Slow = append(c.Slow, r.intn(nc))
	}
	f := &simdisk.Fault{Kind: "crash", Epoch: 0, Img: r.u64(), After: r.p(0.4)}
	switch x := r.intn(10); {
	case x < 5:
		f.Op, f.FT, f.Nth = simdisk.OpWrite, int(storage.TypeJournal), r.rng(2, 60)
	case x < 7:
		f.Op, f.FT, f.Nth = simdisk.OpSync, int(storage.TypeJournal), r.rng(1, 20)
	default:
		f.Nth = r.rng(10, 400)
	}
	c.Faults = []*simdisk.Fault{f}
	return c
}

// ---- generator ----

func genConc(prop string, seed uint64, g *gen, thorough bool) *Case {
	r := g.r
	c := &Case{Prop: prop, Seed: seed, Scenario: "conc"}
	c.Knobs = g.knobs("bytewise")
	g.cmp = comparerByName("bytewise").Compare
	c.Knobs.MaxManifest = 0
	c.Sched = g.sched()
	if c.Sched.Strategy == 0 && c.Sched.YieldP < 0.002 {
		c.Sched.YieldP = []float64{0.002, 0.01, 0.05, 0.2}[r.intn(4)]
	}
	c.Sched.StallP = 0
	nk := r.rng(2, 8)
	g.makeKeys(nk)
	for len(g.keys) < 2 {
		g.keys = append(g.keys, []byte{byte('a' + len(g.keys))})
	}
	nc := r.rng(2, 5)
	total := r.rng(10, 60)
	if prop == "C09" {
		nc = r.rng(2, 6)
		c.Knobs.WriteBuffer = r.pick(512, 1024, 4096, 65536)
		g.wb = c.Knobs.WriteBuffer
	}
	if prop == "C10" || prop == "C20" {
		nc = r.rng(2, 6)
		c.Knobs.NoWriteMerge = r.p(0.1)
		// keep values small relative to the merge limit but sometimes huge
		c.Knobs.WriteBuffer = r.pick(1024, 4096, 65536, 1<<20)
		g.wb = c.Knobs.WriteBuffer
	}
	closer := -1
	if (prop == "C10" || prop == "C09") && r.p(0.3) {
		closer = r.intn(nc)
	}
	storm := prop == "C10" && r.p(0.35) || prop == "C20" && r.p(0.7)
	if storm {
		// many small-buffer writers: merges and overflow hand-offs all the time
		nc = r.rng(4, 8)
		total = r.rng(24, 80)
		c.Knobs.WriteBuffer = r.pick(512, 1024, 2048, 4096)
		c.Knobs.NoWriteMerge = false
		g.wb = c.Knobs.WriteBuffer
	}
	if r.p(0.4) || prop == "C20" && r.p(0.6) {
		// slow nodes: one or two clients are scheduled only rarely (e.g. a
		// merged writer that is late to collect its acknowledgement)
		c.Slow = append(c.Slow, r.intn(nc))
		if r.p(0.3) || prop == "C20" && r.p(0.5) {
			c.Slow = append(c.Slow, r.intn(nc))
		}
	}
	for ci := 0; ci < nc; ci++ {
		var ops []Op
		n := total/nc + r.intn(3)
		role := r.intn(3) // 0 writer, 1 reader, 2 mixed
		if prop == "C10" || prop == "C09" || prop == "C20" {
			role = 0
			if r.p(0.2) && !storm {
				role = 2
			}
		}
		for i := 0; i < n; i++ {
			x := r.intn(100)
			isW := role == 0 && x < 90 || role == 1 && x < 15 || role == 2 && x < 50
			switch {
			case isW && (r.p(0.06) || prop == "C11" && r.p(0.3)):
				op := Op{K: "tx", Commit: r.p(0.8)}
				n, vmax := r.rng(1, 4), 200
				if (prop == "C05" || prop == "C11") && r.p(0.4) {
					// a transaction iterator kept while the body grows past
					// the write buffer
					op.Keep = true
					n, vmax = r.rng(3, 8), 600
				}
				for j := n; j > 0; j-- {
					if r.p(0.8) {
						op.Body = append(op.Body, Op{K: "put", Key: g.key(), Val: g.val(vmax)})
					} else {
						op.Body = append(op.Body, Op{K: "del", Key: g.key()})
					}
				}
				ops = append(ops, op)
			case isW:
				w := g.writeOp(0.1)
				if w.K == "del" {
					w.Key = g.key()
				}
				if prop == "C10" || prop == "C09" || prop == "C20" {
					switch {
					case r.p(0.1):
						// around the merge limit (128 KiB) so overflow hand-off occurs
						if w.K == "put" {
							w.Val.Len = r.pick(60<<10, 100<<10, 130<<10)
						}
					case w.K == "put" && w.Val.Len > 400:
						w.Val.Len = r.rng(minValLen, 400)
					}
					w.NoMerge = r.p(0.15)
				} else {
					if w.K == "put" && w.Val.Len > 300 {
						w.Val.Len = r.rng(minValLen, 300)
					}
					for ri := range w.Recs {
						if w.Recs[ri].Val.Len > 300 {
							w.Recs[ri].Val.Len = r.rng(minValLen, 300)
						}
					}
				}
				ops = append(ops, w)
				// read your own write right after it was acknowledged
				if prop == "C10" && r.p(0.5) || r.p(0.15) {
					if recs := opRecs(&w); len(recs) > 0 {
						ops = append(ops, Op{K: "get", Key: recs[len(recs)-1].Key})
					}
				}
			case x < 70:
				ops = append(ops, Op{K: "get", Key: g.key()})
			case x < 85:
				op := Op{K: "snap"}
				for _, k := range g.keys {
					if r.p(0.7) {
						op.Recs = append(op.Recs, Rec{Key: k})
					}
				}
				ops = append(ops, op)
			case x < 95:
				ops = append(ops, Op{K: "iter"})
			case x < 97:
				ops = append(ops, Op{K: "compact"})
			default:
				ops = append(ops, Op{K: "yield"})
			}
		}
		if prop == "C20" {
			// C20 is about the caller's batch: issue most writes through Write
			for i := range ops {
				if (ops[i].K == "put" || ops[i].K == "del") && r.p(0.75) {
					ops[i] = Op{K: "write", Recs: opRecs(&ops[i]), Sync: ops[i].Sync, NoMerge: ops[i].NoMerge}
				}
			}
		}
		if prop == "C10" || prop == "C20" {
			// identical delete records of different writers cannot be told
			// apart in the journal: give every delete its own key
			uniq := func(k B) B {
				g.nextID++
				return B(fmt.Sprintf("~d%d", g.nextID))
			}
			for i := range ops {
				switch ops[i].K {
				case "del":
					ops[i].Key = uniq(ops[i].Key)
				case "write":
					for ri := range ops[i].Recs {
						if ops[i].Recs[ri].Del {
							ops[i].Recs[ri].Key = uniq(ops[i].Recs[ri].Key)
						}
					}
				}
			}
		}
		if closer >= 0 {
			// iterators and snapshots must be released before Close
			// (documented precondition), and a failed delete cannot be
			// attributed: writers only put, readers only get
			for i := range ops {
				switch ops[i].K {
				case "iter", "snap":
					ops[i] = Op{K: "get", Key: g.key()}
				case "del":
					ops[i] = Op{K: "put", Key: ops[i].Key, Val: g.val(200)}
				case "write":
					for ri := range ops[i].Recs {
						if ops[i].Recs[ri].Del {
							ops[i].Recs[ri] = Rec{Key: ops[i].Recs[ri].Key, Val: g.val(100)}
						}
					}
				case "tx":
					for bi := range ops[i].Body {
						if ops[i].Body[bi].K == "del" {
							ops[i].Body[bi] = Op{K: "put", Key: ops[i].Body[bi].Key, Val: g.val(100)}
						}
					}
				}
			}
		}
		if ci == closer {
			at := r.intn(len(ops) + 1)
			ops = ops[:at]
			if r.p(0.3) {
				// Close with a transaction still open: Close discards it
				ops = append(ops, Op{K: "txleave", Key: g.key(), Val: g.val(200)})
			}
			ops = append(ops, Op{K: "close"})
		}
		c.Clients = append(c.Clients, ops)
	}
	if prop == "C10" && r.p(0.12) {
		// a failing journal write in the middle of the protocol: the group's
		// writers all get the error, a writer that was too large to merge is
		// still handed the lock
		for i := r.rng(1, 2); i > 0; i-- {
			c.Faults = append(c.Faults, &simdisk.Fault{Kind: "err", Op: []string{simdisk.OpWrite, simdisk.OpSync}[r.intn(2)], FT: int(storage.TypeJournal), Nth: r.rng(1, 30), Count: r.rng(1, 2), Epoch: -1})
		}
	} else if prop == "C10" && r.p(0.1) {
		// transactions among the writers while level 0 is at its pause
		// trigger and table operations fail: OpenTransaction waits for a
		// compaction that ends in an error, and must give the lock back
		for i := r.rng(1, 2); i > 0; i-- {
			c.Faults = append(c.Faults, &simdisk.Fault{Kind: "err", Op: []string{simdisk.OpWrite, simdisk.OpSync, simdisk.OpCreate, simdisk.OpOpen}[r.intn(4)], FT: int(storage.TypeTable), Nth: r.rng(2, 12), Count: r.rng(1, 6), Epoch: -1})
		}
		c.Knobs.WriteBuffer = r.pick(512, 1024)
		c.Knobs.L0Trigger = r.pick(1, 2)
		c.Knobs.L0Slowdown = c.Knobs.L0Trigger
		c.Knobs.L0Pause = c.Knobs.L0Trigger + r.intn(2)
		for i := r.rng(2, 4); i > 0; i-- {
			ci := r.intn(len(c.Clients))
			// never behind a transaction that the client leaves open, or
			// behind its Close
			lim := len(c.Clients[ci])
			for i, o := range c.Clients[ci] {
				if o.K == "txleave" || o.K == "close" {
					lim = i
					break
				}
			}
			at := r.intn(lim + 1)
			tx := Op{K: "tx", Commit: r.p(0.8), Body: []Op{{K: "put", Key: g.key(), Val: g.val(200)}}}
			c.Clients[ci] = append(c.Clients[ci][:at:at], append([]Op{tx}, c.Clients[ci][at:]...)...)
		}
	} else if (prop == "C10" || prop == "C09") && closer < 0 && r.p(0.15) {
		// the DB enters its persistent error state in the middle of the
		// writer protocol: one client switches it to read-only, half of the
		// time while a flush is failing and being retried
		ci := r.intn(len(c.Clients))
		at := r.intn(len(c.Clients[ci]) + 1)
		c.Clients[ci] = append(c.Clients[ci][:at:at], append([]Op{{K: "setro"}}, c.Clients[ci][at:]...)...)
		if r.p(0.5) {
			for i := r.rng(1, 2); i > 0; i-- {
				c.Faults = append(c.Faults, &simdisk.Fault{Kind: "err", Op: []string{simdisk.OpWrite, simdisk.OpSync, simdisk.OpCreate}[r.intn(3)], FT: int(storage.TypeTable), Nth: r.rng(1, 6), Count: r.rng(1, 8), Epoch: -1})
			}
			if c.Knobs.WriteBuffer > 4096 {
				c.Knobs.WriteBuffer = r.pick(512, 1024, 4096)
			}
		}
	}
	return c
}
