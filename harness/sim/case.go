package sim

import (
	"bytes"
	"encoding/binary"
	"encoding/hex"
	"encoding/json"
	"fmt"
	"sort"

	"github.com/syndtr/goleveldb/leveldb/comparer"
	"github.com/syndtr/goleveldb/leveldb/filter"
	"github.com/syndtr/goleveldb/leveldb/opt"
	"verif/harness/simdisk"
)

// B is a byte string that marshals as hex (keys may hold any byte).
type B []byte

func (b B) MarshalJSON() ([]byte, error) { return json.Marshal(hex.EncodeToString(b)) }
func (b *B) UnmarshalJSON(p []byte) error {
	var s string
	if err := json.Unmarshal(p, &s); err != nil {
		return err
	}
	x, err := hex.DecodeString(s)
	if err != nil {
		return err
	}
	*b = x
	return nil
}

// V describes a value compactly: a unique id and a length. The bytes are a
// function of both, so every written value is attributable to one write.
type V struct {
	ID  uint32 `json:"id"`
	Len int    `json:"len"`
}

// Bytes expands the value.
func (v V) Bytes() []byte {
	b := make([]byte, v.Len)
	hdr := fmt.Sprintf("v%08x.", v.ID)
	n := copy(b, hdr)
	x := uint64(v.ID)*0x9e3779b97f4a7c15 + 1
	for i := n; i < len(b); i++ {
		x ^= x << 13
		x ^= x >> 7
		x ^= x << 17
		b[i] = byte('a' + x%26)
	}
	return b
}

// minimum length at which ids stay unique
const minValLen = 10

// Rec is one record of a batch.
type Rec struct {
	Del bool `json:"del,omitempty"`
	Key B    `json:"k"`
	Val V    `json:"v"`
}

// Move is one iterator movement.
type Move struct {
	K   string `json:"m"` // first last next prev seek
	Key B      `json:"k,omitempty"`
}

// Op is one client operation.
type Op struct {
	K        string `json:"op"`
	Key      B      `json:"k,omitempty"`
	Val      V      `json:"v,omitempty"`
	Recs     []Rec  `json:"recs,omitempty"`
	Sync     bool   `json:"sync,omitempty"`
	NoMerge  bool   `json:"nomerge,omitempty"`
	Slot     int    `json:"slot,omitempty"`  // snapshot / iterator slot
	Via      string `json:"via,omitempty"`   // "", "snap", "tx"
	Start    B      `json:"start,omitempty"` // range
	Limit    B      `json:"limit,omitempty"`
	HasS     bool   `json:"hs,omitempty"`
	HasL     bool   `json:"hl,omitempty"`
	Moves    []Move `json:"moves,omitempty"`
	Body     []Op   `json:"body,omitempty"` // transaction body
	Commit   bool   `json:"commit,omitempty"`
	Ms       int    `json:"ms,omitempty"`    // sleep
	Knob     *Knobs `json:"knobs,omitempty"` // reopen with new knobs
	Scrib    bool   `json:"scrib,omitempty"`
	RO       bool   `json:"ro,omitempty"`
	Keep     bool   `json:"keep,omitempty"`    // iterator: keep open in slot after script
	Outlive  int    `json:"outlive,omitempty"` // tx: the kept iterator survives Commit/Discard in this DB-level slot
	DontFill bool   `json:"dontfill,omitempty"`
}

// Knobs is the explicit option vector of a run.
type Knobs struct {
	Comparer            string  `json:"cmp"`
	WriteBuffer         int     `json:"wb"`
	TableSize           int     `json:"ts"`
	TotalSize           int     `json:"tot"`
	TotalMult           float64 `json:"totmul"`
	TableMult           float64 `json:"tsmul,omitempty"`
	L0Trigger           int     `json:"l0"`
	L0Slowdown          int     `json:"l0slow"`
	L0Pause             int     `json:"l0pause"`
	ExpandLimit         int     `json:"expand,omitempty"`
	GPOverlaps          int     `json:"gp,omitempty"`
	SourceLimit         int     `json:"srclim,omitempty"`
	BlockSize           int     `json:"bs"`
	RestartInterval     int     `json:"ri"`
	NoCompression       bool    `json:"nocomp,omitempty"`
	FilterBits          int     `json:"fbits,omitempty"` // 0 = no filter, >0 bloom bits per key, <0 the hash-set policy
	FilterBaseLg        int     `json:"fbase,omitempty"`
	AltFilterBits       []int   `json:"alt,omitempty"`
	BlockCache          int     `json:"bc"`  // -1 disabled, 0 default
	OpenFiles           int     `json:"ofc"` // -1 disabled, 0 default
	DisableBufferPool   bool    `json:"nobp,omitempty"`
	DisableBlockCache   bool    `json:"nobc,omitempty"`
	EvictRemoved        bool    `json:"evrm,omitempty"`
	SamplingRate        int     `json:"sr,omitempty"`
	DisableSeeks        bool    `json:"noseek,omitempty"`
	NoSync              bool    `json:"nosync,omitempty"`
	NoWriteMerge        bool    `json:"nomerge,omitempty"`
	DisableLargeBatchTx bool    `json:"nolbt,omitempty"`
	DisableBackoff      bool    `json:"nobackoff,omitempty"`
	MaxManifest         int64   `json:"mmf,omitempty"`
	Strict              uint    `json:"strict,omitempty"`
	ReadOnly            bool    `json:"ro,omitempty"`
}

// SchedCfg selects the scheduling strategy of a run.
type SchedCfg struct {
	Strategy   int     `json:"strat"`
	YieldP     float64 `json:"yp"`
	PCTDepth   int     `json:"pctd,omitempty"`
	PCTHorizon int64   `json:"pcth,omitempty"`
	StallP     float64 `json:"stallp,omitempty"`
	PoolDropP  float64 `json:"pooldrop,omitempty"`
}

// Case is one exactly repeatable simulated run.
type Case struct {
	Prop            string           `json:"prop"`
	Scenario        string           `json:"scenario"`
	Seed            uint64           `json:"seed"`
	Knobs           Knobs            `json:"knobs"`
	Sched           SchedCfg         `json:"sched"`
	Clients         [][]Op           `json:"clients"`
	Faults          []*simdisk.Fault `json:"faults,omitempty"`
	Comp            *CompCase        `json:"comp,omitempty"` // component scenarios
	MaxSteps        int64            `json:"max_steps,omitempty"`
	Life            string           `json:"life,omitempty"`
	Damage          *Damage          `json:"damage,omitempty"`
	Rot             bool             `json:"rot,omitempty"` // the program contains a bit-rot step
	TableFaultsOnly bool             `json:"table_faults_only,omitempty"`
	Slow            []int            `json:"slow,omitempty"` // clients scheduled only rarely (slow nodes)
}

// Clone deep-copies a case through JSON.
func (c *Case) Clone() *Case {
	b, err := json.Marshal(c)
	if err != nil {
		panic(err)
	}
	var n Case
	if err := json.Unmarshal(b, &n); err != nil {
		panic(err)
	}
	return &n
}

// Size is the shrinker's measure.
func (c *Case) Size() int {
	n := 0
	var cnt func(ops []Op)
	cnt = func(ops []Op) {
		for _, o := range ops {
			n += 10 + len(o.Recs)*3 + len(o.Moves) + len(o.Key) + o.Val.Len/64
			cnt(o.Body)
		}
	}
	for _, cl := range c.Clients {
		n += 5
		cnt(cl)
	}
	n += 20 * len(c.Faults)
	if c.Comp != nil {
		n += c.Comp.size()
	}
	return n
}

// ---- comparers ----

type revCmp struct{}

func (revCmp) Compare(a, b []byte) int           { return bytes.Compare(b, a) }
func (revCmp) Name() string                      { return "verif.reverse" }
func (revCmp) Separator(dst, a, b []byte) []byte { return nil }
func (revCmp) Successor(dst, b []byte) []byte    { return nil }

// lenCmp orders by length first, then bytewise.
type lenCmp struct{}

func (lenCmp) Compare(a, b []byte) int {
	if len(a) != len(b) {
		if len(a) < len(b) {
			return -1
		}
		return 1
	}
	return bytes.Compare(a, b)
}
func (lenCmp) Name() string                      { return "verif.lenfirst" }
func (lenCmp) Separator(dst, a, b []byte) []byte { return nil }
func (lenCmp) Successor(dst, b []byte) []byte    { return nil }

// nilSepCmp is bytewise order whose Separator/Successor never shorten.
type nilSepCmp struct{}

func (nilSepCmp) Compare(a, b []byte) int           { return bytes.Compare(a, b) }
func (nilSepCmp) Name() string                      { return "verif.bytewise-nosep" }
func (nilSepCmp) Separator(dst, a, b []byte) []byte { return nil }
func (nilSepCmp) Successor(dst, b []byte) []byte    { return nil }

// foldCmp compares case-insensitively (ASCII), ties broken bytewise.
type foldCmp struct{}

func fold(b byte) byte {
	if b >= 'A' && b <= 'Z' {
		return b + 32
	}
	return b
}
func (foldCmp) Compare(a, b []byte) int {
	n := len(a)
	if len(b) < n {
		n = len(b)
	}
	for i := 0; i < n; i++ {
		x, y := fold(a[i]), fold(b[i])
		if x != y {
			if x < y {
				return -1
			}
			return 1
		}
	}
	if len(a) != len(b) {
		if len(a) < len(b) {
			return -1
		}
		return 1
	}
	return bytes.Compare(a, b)
}
func (foldCmp) Name() string                      { return "verif.fold" }
func (foldCmp) Separator(dst, a, b []byte) []byte { return nil }
func (foldCmp) Successor(dst, b []byte) []byte    { return nil }

var comparerNames = []string{"bytewise", "reverse", "lenfirst", "nosep", "fold"}

func comparerByName(n string) comparer.Comparer {
	switch n {
	case "", "bytewise":
		return comparer.DefaultComparer
	case "reverse":
		return revCmp{}
	case "lenfirst":
		return lenCmp{}
	case "nosep":
		return nilSepCmp{}
	case "fold":
		return foldCmp{}
	}
	panic("unknown comparer " + n)
}

// Options converts the knob vector.
func (k *Knobs) Options() *opt.Options {
	o := &opt.Options{
		Comparer:                      comparerByName(k.Comparer),
		WriteBuffer:                   k.WriteBuffer,
		CompactionTableSize:           k.TableSize,
		CompactionTotalSize:           k.TotalSize,
		CompactionTotalSizeMultiplier: k.TotalMult,
		CompactionTableSizeMultiplier: k.TableMult,
		CompactionL0Trigger:           k.L0Trigger,
		WriteL0SlowdownTrigger:        k.L0Slowdown,
		WriteL0PauseTrigger:           k.L0Pause,
		CompactionExpandLimitFactor:   k.ExpandLimit,
		CompactionGPOverlapsFactor:    k.GPOverlaps,
		CompactionSourceLimitFactor:   k.SourceLimit,
		BlockSize:                     k.BlockSize,
		BlockRestartInterval:          k.RestartInterval,
		BlockCacheCapacity:            k.BlockCache,
		OpenFilesCacheCapacity:        k.OpenFiles,
		DisableBufferPool:             k.DisableBufferPool,
		DisableBlockCache:             k.DisableBlockCache,
		BlockCacheEvictRemoved:        k.EvictRemoved,
		IteratorSamplingRate:          k.SamplingRate,
		DisableSeeksCompaction:        k.DisableSeeks,
		NoSync:                        k.NoSync,
		NoWriteMerge:                  k.NoWriteMerge,
		DisableLargeBatchTransaction:  k.DisableLargeBatchTx,
		DisableCompactionBackoff:      k.DisableBackoff,
		MaxManifestFileSize:           k.MaxManifest,
		Strict:                        opt.Strict(k.Strict),
		ReadOnly:                      k.ReadOnly,
	}
	if k.NoCompression {
		o.Compression = opt.NoCompression
	}
	if k.FilterBits != 0 {
		o.Filter = filterByBits(k.FilterBits)
	}
	o.FilterBaseLg = k.FilterBaseLg
	for _, b := range k.AltFilterBits {
		o.AltFilters = append(o.AltFilters, filterByBits(b))
	}
	return o
}

// filterByBits: positive = the built-in bloom filter with that many bits per
// key; negative = hsFilter, a policy with another name and another encoding.
func filterByBits(b int) filter.Filter {
	if b < 0 {
		return hsFilter{}
	}
	return filter.NewBloomFilter(b)
}

// hsFilter is a second, exact filter policy: the sorted 32-bit hashes of the
// keys. Its name differs from the bloom filter's, and each policy misreads the
// other's blocks, so a table written under one must never be consulted
// through the other.
type hsFilter struct{}

func (hsFilter) Name() string { return "verif.HashSetFilter" }

func hsHash(key []byte) uint32 {
	h := uint32(2166136261)
	for _, b := range key {
		h = (h ^ uint32(b)) * 16777619
	}
	return h
}

func (hsFilter) Contains(f, key []byte) bool {
	h := hsHash(key)
	n := len(f) / 4
	i := sort.Search(n, func(i int) bool { return binary.BigEndian.Uint32(f[i*4:]) >= h })
	return i < n && binary.BigEndian.Uint32(f[i*4:]) == h
}

func (hsFilter) NewGenerator() filter.FilterGenerator { return &hsGen{} }

type hsGen struct{ hs []uint32 }

func (g *hsGen) Add(key []byte) { g.hs = append(g.hs, hsHash(key)) }

func (g *hsGen) Generate(b filter.Buffer) {
	sort.Slice(g.hs, func(i, j int) bool { return g.hs[i] < g.hs[j] })
	for _, h := range g.hs {
		binary.BigEndian.PutUint32(b.Alloc(4), h)
	}
	g.hs = g.hs[:0]
}
