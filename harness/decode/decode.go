// Package decode holds independent decoders for the bytes goleveldb writes
// through the storage seam: journal framing, write batches, manifest version
// edits and sorted tables. They share no code with goleveldb (only the snappy
// codec, which is a third-party dependency of both), so monitors built on
// them are an independent witness of what was persisted.
package decode

import (
	"encoding/binary"
	"errors"
	"fmt"
	"hash/crc32"

	"github.com/golang/snappy"
)

var castagnoli = crc32.MakeTable(crc32.Castagnoli)

// MaskedCRC is LevelDB's masked CRC-32C.
func MaskedCRC(parts ...[]byte) uint32 {
	var c uint32
	for _, p := range parts {
		c = crc32.Update(c, castagnoli, p)
	}
	return (c>>15 | c<<17) + 0xa282ead8
}

const (
	BlockSize  = 32 * 1024
	headerSize = 7
	chFull     = 1
	chFirst    = 2
	chMiddle   = 3
	chLast     = 4
)

// JournalRecord is one logical record with the byte range of its chunks.
type JournalRecord struct {
	Data       []byte
	Start, End int // [Start, End) in the stream
}

// Journal decodes journal framing. It stops at the first malformed chunk or
// incomplete record and returns what was complete up to there, together with
// the offset where decoding stopped and whether the stream was clean (ended
// exactly at a record boundary, ignoring block trailer padding).
func Journal(data []byte) (recs []JournalRecord, stop int, clean bool) {
	recs, stop, clean, inRec, start := journal(data)
	if inRec {
		// stopped inside a multi-chunk record: resume at its first chunk
		stop = start
	}
	return recs, stop, clean
}

func journal(data []byte) (recs []JournalRecord, stop int, clean bool, inRec bool, recStart int) {
	pos := 0
	var cur []byte
	start := 0
	in := false
	for {
		// skip block trailer
		left := BlockSize - pos%BlockSize
		if left < headerSize {
			if pos+left > len(data) {
				// trailer partially written
				allZero := true
				for _, b := range data[pos:] {
					if b != 0 {
						allZero = false
					}
				}
				return recs, pos, !in && allZero, in, start
			}
			pos += left
			continue
		}
		if pos == len(data) {
			return recs, pos, !in, in, start
		}
		if pos+headerSize > len(data) {
			return recs, pos, false, in, start
		}
		sum := binary.LittleEndian.Uint32(data[pos:])
		ln := int(binary.LittleEndian.Uint16(data[pos+4:]))
		typ := data[pos+6]
		if pos+headerSize+ln > len(data) || headerSize+ln > left {
			return recs, pos, false, in, start
		}
		if typ < chFull || typ > chLast {
			return recs, pos, false, in, start
		}
		payload := data[pos+headerSize : pos+headerSize+ln]
		if MaskedCRC(data[pos+6:pos+7], payload) != sum {
			return recs, pos, false, in, start
		}
		switch typ {
		case chFull:
			if in {
				return recs, pos, false, in, start
			}
			recs = append(recs, JournalRecord{Data: append([]byte(nil), payload...), Start: pos, End: pos + headerSize + ln})
		case chFirst:
			if in {
				return recs, pos, false, in, start
			}
			in = true
			start = pos
			cur = append([]byte(nil), payload...)
		case chMiddle:
			if !in {
				return recs, pos, false, in, start
			}
			cur = append(cur, payload...)
		case chLast:
			if !in {
				return recs, pos, false, in, start
			}
			cur = append(cur, payload...)
			recs = append(recs, JournalRecord{Data: cur, Start: start, End: pos + headerSize + ln})
			cur = nil
			in = false
		}
		pos += headerSize + ln
	}
}

// BatchRec is one entry of a write batch.
type BatchRec struct {
	Del bool
	Key []byte
	Val []byte
}

// Batch decodes a write-ahead-log record.
func Batch(rec []byte) (seq uint64, recs []BatchRec, err error) {
	if len(rec) < 12 {
		return 0, nil, errors.New("batch: short header")
	}
	seq = binary.LittleEndian.Uint64(rec)
	n := int(binary.LittleEndian.Uint32(rec[8:]))
	p := rec[12:]
	for i := 0; i < n; i++ {
		if len(p) < 1 {
			return seq, recs, errors.New("batch: truncated")
		}
		kt := p[0]
		p = p[1:]
		kl, m := binary.Uvarint(p)
		if m <= 0 || uint64(len(p)-m) < kl {
			return seq, recs, errors.New("batch: bad key")
		}
		key := p[m : m+int(kl)]
		p = p[m+int(kl):]
		r := BatchRec{Key: key}
		switch kt {
		case 1:
			vl, m := binary.Uvarint(p)
			if m <= 0 || uint64(len(p)-m) < vl {
				return seq, recs, errors.New("batch: bad value")
			}
			r.Val = p[m : m+int(vl)]
			p = p[m+int(vl):]
		case 0:
			r.Del = true
		default:
			return seq, recs, fmt.Errorf("batch: bad type %d", kt)
		}
		recs = append(recs, r)
	}
	if len(p) != 0 {
		return seq, recs, errors.New("batch: trailing bytes")
	}
	return seq, recs, nil
}

// TableMeta is a table as recorded in a version edit.
type TableMeta struct {
	Level int
	Num   int64
	Size  int64
	Imin  []byte
	Imax  []byte
}

// Edit is a decoded manifest record.
type Edit struct {
	HasComparer    bool
	Comparer       string
	HasJournalNum  bool
	JournalNum     int64
	HasPrevJournal bool
	PrevJournalNum int64
	HasNextFile    bool
	NextFileNum    int64
	HasSeq         bool
	SeqNum         uint64
	CompPtrs       int
	Deleted        []TableMeta
	Added          []TableMeta
}

type rd struct {
	p   []byte
	err error
}

func (r *rd) uvarint() uint64 {
	if r.err != nil {
		return 0
	}
	x, n := binary.Uvarint(r.p)
	if n <= 0 {
		r.err = errors.New("edit: bad varint")
		return 0
	}
	r.p = r.p[n:]
	return x
}

func (r *rd) bytes() []byte {
	n := r.uvarint()
	if r.err != nil {
		return nil
	}
	if uint64(len(r.p)) < n {
		r.err = errors.New("edit: short bytes")
		return nil
	}
	b := r.p[:n]
	r.p = r.p[n:]
	return b
}

// ParseEdit decodes one manifest record.
func ParseEdit(rec []byte) (Edit, error) {
	var e Edit
	r := rd{p: rec}
	for len(r.p) > 0 && r.err == nil {
		tag := r.uvarint()
		switch tag {
		case 1:
			e.HasComparer = true
			e.Comparer = string(r.bytes())
		case 2:
			e.HasJournalNum = true
			e.JournalNum = int64(r.uvarint())
		case 9:
			e.HasPrevJournal = true
			e.PrevJournalNum = int64(r.uvarint())
		case 3:
			e.HasNextFile = true
			e.NextFileNum = int64(r.uvarint())
		case 4:
			e.HasSeq = true
			e.SeqNum = r.uvarint()
		case 5:
			r.uvarint()
			r.bytes()
			e.CompPtrs++
		case 6:
			lv := int(r.uvarint())
			num := int64(r.uvarint())
			e.Deleted = append(e.Deleted, TableMeta{Level: lv, Num: num})
		case 7:
			lv := int(r.uvarint())
			num := int64(r.uvarint())
			size := int64(r.uvarint())
			imin := r.bytes()
			imax := r.bytes()
			e.Added = append(e.Added, TableMeta{Level: lv, Num: num, Size: size, Imin: imin, Imax: imax})
		default:
			if r.err == nil {
				r.err = fmt.Errorf("edit: unknown tag %d", tag)
			}
		}
	}
	return e, r.err
}

// Entry is one key/value entry of a table with the data block that holds it.
type Entry struct {
	Key   []byte // internal key
	Val   []byte
	Block int
}

// BlockInfo locates a block inside a table file.
type BlockInfo struct {
	Off, Len int // contents only; the 5-byte trailer follows
}

// Table is a decoded sorted table.
type Table struct {
	Entries    []Entry
	DataBlocks []BlockInfo
	Index      BlockInfo
	MetaIndex  BlockInfo
	Filter     *BlockInfo
	IndexKeys  [][]byte
}

const footerLen = 48

var tableMagic = []byte("\x57\xfb\x80\x8b\x24\x75\x47\xdb")

func readBlock(data []byte, off, ln int, verify bool) ([]byte, error) {
	if off < 0 || ln < 0 || off+ln+5 > len(data) {
		return nil, errors.New("table: block handle out of range")
	}
	raw := data[off : off+ln+5]
	if verify {
		want := binary.LittleEndian.Uint32(raw[ln+1:])
		if MaskedCRC(raw[:ln+1]) != want {
			return nil, errors.New("table: block checksum mismatch")
		}
	}
	switch raw[ln] {
	case 0:
		return raw[:ln], nil
	case 1:
		return snappy.Decode(nil, raw[:ln])
	}
	return nil, fmt.Errorf("table: unknown compression %d", raw[ln])
}

type kv struct{ k, v []byte }

func parseBlock(b []byte) ([]kv, error) {
	if len(b) < 4 {
		return nil, errors.New("table: block too short")
	}
	nr := int(binary.LittleEndian.Uint32(b[len(b)-4:]))
	end := len(b) - 4 - 4*nr
	if nr < 0 || end < 0 {
		return nil, errors.New("table: bad restart count")
	}
	var out []kv
	var key []byte
	p := 0
	for p < end {
		sh, n1 := binary.Uvarint(b[p:end])
		if n1 <= 0 {
			return nil, errors.New("table: bad entry")
		}
		us, n2 := binary.Uvarint(b[p+n1 : end])
		if n2 <= 0 {
			return nil, errors.New("table: bad entry")
		}
		vl, n3 := binary.Uvarint(b[p+n1+n2 : end])
		if n3 <= 0 {
			return nil, errors.New("table: bad entry")
		}
		p += n1 + n2 + n3
		if int(sh) > len(key) || p+int(us)+int(vl) > end {
			return nil, errors.New("table: entry out of range")
		}
		key = append(append([]byte(nil), key[:sh]...), b[p:p+int(us)]...)
		val := b[p+int(us) : p+int(us)+int(vl)]
		p += int(us) + int(vl)
		out = append(out, kv{key, val})
	}
	return out, nil
}

func handle(b []byte) (off, ln int, n int) {
	o, n1 := binary.Uvarint(b)
	if n1 <= 0 {
		return 0, 0, -1
	}
	l, n2 := binary.Uvarint(b[n1:])
	if n2 <= 0 {
		return 0, 0, -1
	}
	return int(o), int(l), n1 + n2
}

// ParseTable decodes a finished table file.
func ParseTable(data []byte) (*Table, error) {
	if len(data) < footerLen {
		return nil, errors.New("table: too short")
	}
	foot := data[len(data)-footerLen:]
	if string(foot[footerLen-8:]) != string(tableMagic) {
		return nil, errors.New("table: bad magic")
	}
	mo, ml, n := handle(foot)
	if n < 0 {
		return nil, errors.New("table: bad metaindex handle")
	}
	io, il, n2 := handle(foot[n:])
	if n2 < 0 {
		return nil, errors.New("table: bad index handle")
	}
	t := &Table{Index: BlockInfo{io, il}, MetaIndex: BlockInfo{mo, ml}}
	if mb, err := readBlock(data, mo, ml, true); err == nil {
		if kvs, err := parseBlock(mb); err == nil {
			for _, e := range kvs {
				if len(e.k) > 7 && string(e.k[:7]) == "filter." {
					if o, l, n := handle(e.v); n > 0 {
						t.Filter = &BlockInfo{o, l}
					}
				}
			}
		}
	}
	ib, err := readBlock(data, io, il, true)
	if err != nil {
		return nil, fmt.Errorf("index: %w", err)
	}
	ikvs, err := parseBlock(ib)
	if err != nil {
		return nil, fmt.Errorf("index: %w", err)
	}
	for bi, ie := range ikvs {
		o, l, n := handle(ie.v)
		if n < 0 {
			return nil, errors.New("table: bad data handle")
		}
		t.DataBlocks = append(t.DataBlocks, BlockInfo{o, l})
		t.IndexKeys = append(t.IndexKeys, ie.k)
		db, err := readBlock(data, o, l, true)
		if err != nil {
			return nil, fmt.Errorf("data block %d: %w", bi, err)
		}
		kvs, err := parseBlock(db)
		if err != nil {
			return nil, fmt.Errorf("data block %d: %w", bi, err)
		}
		for _, e := range kvs {
			t.Entries = append(t.Entries, Entry{Key: e.k, Val: e.v, Block: bi})
		}
	}
	return t, nil
}

// SplitIKey splits an internal key.
func SplitIKey(ik []byte) (ukey []byte, seq uint64, kt byte, ok bool) {
	if len(ik) < 8 {
		return nil, 0, 0, false
	}
	num := binary.LittleEndian.Uint64(ik[len(ik)-8:])
	return ik[:len(ik)-8], num >> 8, byte(num & 0xff), true
}
