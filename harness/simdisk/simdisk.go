// Package simdisk is the simulated storage: an implementation of
// goleveldb's storage.Storage with an explicit durability model, seeded
// fault injection and crash images (DESIGN.md §2.3). Only one simulated
// goroutine runs at a time, so it needs no locking.
package simdisk

import (
	"errors"
	"fmt"
	"io"
	"os"
	"sort"
	"time"

	"github.com/syndtr/goleveldb/leveldb/storage"
	"verif/simrt"
)

// ErrInjected is returned by operations failed by the fault plan.
var ErrInjected = errors.New("simdisk: injected fault")

// ErrCrashed is returned to stale handles of a dead epoch.
var ErrCrashed = errors.New("simdisk: handle belongs to a crashed epoch")

// Operation kinds.
const (
	OpCreate  = "create"
	OpOpen    = "open"
	OpRead    = "read"
	OpWrite   = "write"
	OpSync    = "sync"
	OpClose   = "close"
	OpRemove  = "remove"
	OpRename  = "rename"
	OpSetMeta = "setmeta"
	OpGetMeta = "getmeta"
	OpList    = "list"
	OpLock    = "lock"
)

// Fault is one entry of the explicit fault plan.
type Fault struct {
	Kind    string `json:"kind"`            // "err", "short", "crash", "stall"
	Op      string `json:"op"`              // operation kind, "" = any
	FT      int    `json:"ft"`              // storage.FileType mask, 0 = any
	Nth     int    `json:"nth"`             // fires at the Nth matching event (1-based) ...
	Count   int    `json:"count,omitempty"` // ... and the following Count-1 matching events; <0 = until healed
	Epoch   int    `json:"epoch"`           // epoch the fault belongs to (-1 = any)
	After   bool   `json:"after,omitempty"` // crash only: after the operation's effect instead of before
	Img     uint64 `json:"img,omitempty"`   // crash only: seed for the durable-image variant
	StallMs int    `json:"stall_ms,omitempty"`

	seen  int
	fired int
}

// Stats counts what actually happened.
type Stats struct {
	Events int
	Ops    map[string]int
	Fired  map[string]int // fault kind/op/filetype -> count
}

type file struct {
	data    []byte
	synced  int
	removed bool
	gen     int
}

// Hooks let the harness observe the seam in the caller's context.
type Hooks struct {
	// OnSync is called after a successful sync of a file.
	OnSync func(fd storage.FileDesc, data []byte)
	// OnRemove is called before a file is removed.
	OnRemove func(fd storage.FileDesc)
	// OnReadRemoved is called when a removed file is read through an old handle.
	OnReadRemoved func(fd storage.FileDesc)
	// OnSetMeta is called after CURRENT was switched.
	OnSetMeta func(fd storage.FileDesc)
	// OnClose is called when a writer is closed.
	OnClose func(fd storage.FileDesc, data []byte)
	// OnCrash is called when a crash fault fires, before the epoch is killed.
	OnCrash func(f *Fault)
	// OnMutate is called for every mutating operation (read-only checks).
	OnMutate func(op string, fd storage.FileDesc)
	// OnEvent is called for every storage event.
	OnEvent func(n int, op string, fd storage.FileDesc)
}

// Disk is the simulated storage device.
type Disk struct {
	files       map[storage.FileDesc]*file
	meta        storage.FileDesc
	MetaCorrupt bool
	locked      bool
	lockEpoch   int
	Epoch       int
	Plan        []*Fault
	Healed      bool
	NoFaults    bool
	St          Stats
	H           Hooks
	Trace       []string
	KeepTrace   bool
	gen         int
	LastFaultAt int // event index of the last fault that fired
}

// New returns an empty disk.
func New() *Disk {
	return &Disk{files: map[storage.FileDesc]*file{}, St: Stats{Ops: map[string]int{}, Fired: map[string]int{}}}
}

func ftName(t storage.FileType) string {
	switch t {
	case storage.TypeManifest:
		return "manifest"
	case storage.TypeJournal:
		return "journal"
	case storage.TypeTable:
		return "table"
	case storage.TypeTemp:
		return "temp"
	}
	return "none"
}

// event registers one storage event: scheduling point, trace, fault lookup.
// It returns the fault to apply, if any.
func (d *Disk) event(op string, fd storage.FileDesc, n int) *Fault {
	simrt.Point("disk." + op)
	d.St.Events++
	d.St.Ops[op+"/"+ftName(fd.Type)]++
	simrt.Note(uint64(d.St.Events)<<20 ^ uint64(fd.Num)<<8 ^ uint64(len(op)) ^ uint64(n)<<40)
	if d.KeepTrace {
		g := simrt.Cur()
		who := "?"
		if g != nil {
			who = g.Name
		}
		d.Trace = append(d.Trace, fmt.Sprintf("#%d e%d %s %s %s n=%d", d.St.Events, d.Epoch, who, op, fd, n))
	}
	if d.H.OnEvent != nil {
		d.H.OnEvent(d.St.Events, op, fd)
	}
	if d.Healed || d.NoFaults {
		return nil
	}
	for _, f := range d.Plan {
		if f.Epoch >= 0 && f.Epoch != d.Epoch {
			continue
		}
		if f.Op != "" && f.Op != op {
			continue
		}
		if f.FT != 0 && int(fd.Type)&f.FT == 0 {
			continue
		}
		f.seen++
		if f.seen < f.Nth {
			continue
		}
		if f.Count >= 0 {
			c := f.Count
			if c == 0 {
				c = 1
			}
			if f.seen >= f.Nth+c {
				continue
			}
		}
		f.fired++
		d.St.Fired[f.Kind+"/"+op+"/"+ftName(fd.Type)]++
		d.LastFaultAt = d.St.Events
		if d.KeepTrace {
			d.Trace = append(d.Trace, fmt.Sprintf("   ^^^ FAULT %s fired on %s %s", f.Kind, op, fd))
		}
		simrt.Progress() // bounded liveness is judged from the last fault onwards
		if f.Kind == "stall" {
			ms := f.StallMs
			if ms <= 0 {
				ms = 50
			}
			simrt.Sleep(timeMs(ms))
			continue
		}
		return f
	}
	return nil
}

// PendingFaults reports whether any planned fault can still fire.
func (d *Disk) PendingFaults() bool {
	if d.Healed || d.NoFaults {
		return false
	}
	for _, f := range d.Plan {
		if f.Count < 0 {
			return true
		}
		c := f.Count
		if c == 0 {
			c = 1
		}
		if f.seen < f.Nth+c-1 {
			return true
		}
	}
	return false
}

// crash hands control to the harness, which abandons the epoch's goroutines
// (including the caller); the hook must not return.
func (d *Disk) crash(f *Fault) {
	if d.H.OnCrash == nil {
		panic("simdisk: crash fault without OnCrash hook")
	}
	d.H.OnCrash(f)
	panic("simdisk: OnCrash hook returned")
}

func timeMs(ms int) time.Duration { return time.Duration(ms) * time.Millisecond }

func (d *Disk) mutate(op string, fd storage.FileDesc) {
	if d.H.OnMutate != nil {
		d.H.OnMutate(op, fd)
	}
}

// ---- storage.Storage ----

type locker struct {
	d     *Disk
	epoch int
}

func (l *locker) Unlock() {
	if l.d.locked && l.d.lockEpoch == l.epoch {
		l.d.locked = false
	}
}

// Handle is the per-epoch view of the disk handed to leveldb.Open.
type Handle struct {
	d     *Disk
	epoch int
}

// Open returns the storage handle for the disk's current epoch.
func (d *Disk) Handle() *Handle { return &Handle{d: d, epoch: d.Epoch} }

func (h *Handle) stale() bool { return h.epoch != h.d.Epoch }

func (h *Handle) Lock() (storage.Locker, error) {
	d := h.d
	if h.stale() {
		return nil, ErrCrashed
	}
	if f := d.event(OpLock, storage.FileDesc{}, 0); f != nil {
		if f.Kind == "crash" {
			d.crash(f)
		}
		return nil, ErrInjected
	}
	if d.locked {
		return nil, storage.ErrLocked
	}
	d.locked = true
	d.lockEpoch = h.epoch
	return &locker{d, h.epoch}, nil
}

func (h *Handle) Log(str string) {}

func (h *Handle) SetMeta(fd storage.FileDesc) error {
	d := h.d
	if h.stale() {
		return ErrCrashed
	}
	if !storage.FileDescOk(fd) {
		return storage.ErrInvalidFile
	}
	f := d.event(OpSetMeta, fd, 0)
	if f != nil {
		if f.Kind == "crash" {
			if f.After {
				d.mutate(OpSetMeta, fd)
				d.meta = fd
				d.MetaCorrupt = false
			}
			d.crash(f)
		}
		return ErrInjected
	}
	d.mutate(OpSetMeta, fd)
	d.meta = fd
	d.MetaCorrupt = false
	if d.H.OnSetMeta != nil {
		d.H.OnSetMeta(fd)
	}
	return nil
}

func (h *Handle) GetMeta() (storage.FileDesc, error) {
	d := h.d
	if h.stale() {
		return storage.FileDesc{}, ErrCrashed
	}
	if f := d.event(OpGetMeta, storage.FileDesc{}, 0); f != nil {
		if f.Kind == "crash" {
			d.crash(f)
		}
		return storage.FileDesc{}, ErrInjected
	}
	if d.MetaCorrupt {
		return storage.FileDesc{}, &storage.ErrCorrupted{Err: errors.New("simdisk: CURRENT is garbage")}
	}
	if d.meta.Zero() {
		return storage.FileDesc{}, os.ErrNotExist
	}
	if fl, ok := d.files[d.meta]; !ok || fl.removed {
		return storage.FileDesc{}, os.ErrNotExist
	}
	return d.meta, nil
}

func (h *Handle) List(ft storage.FileType) ([]storage.FileDesc, error) {
	d := h.d
	if h.stale() {
		return nil, ErrCrashed
	}
	if f := d.event(OpList, storage.FileDesc{}, 0); f != nil {
		if f.Kind == "crash" {
			d.crash(f)
		}
		return nil, ErrInjected
	}
	return d.ListFiles(ft), nil
}

// ListFiles lists without generating an event (harness use).
func (d *Disk) ListFiles(ft storage.FileType) []storage.FileDesc {
	var fds []storage.FileDesc
	for fd := range d.files {
		if fd.Type&ft != 0 {
			fds = append(fds, fd)
		}
	}
	sort.Slice(fds, func(i, j int) bool {
		if fds[i].Type != fds[j].Type {
			return fds[i].Type < fds[j].Type
		}
		return fds[i].Num < fds[j].Num
	})
	return fds
}

type reader struct {
	h   *Handle
	fd  storage.FileDesc
	f   *file
	pos int64
	cl  bool
}

func (h *Handle) Open(fd storage.FileDesc) (storage.Reader, error) {
	d := h.d
	if h.stale() {
		return nil, ErrCrashed
	}
	if !storage.FileDescOk(fd) {
		return nil, storage.ErrInvalidFile
	}
	if f := d.event(OpOpen, fd, 0); f != nil {
		if f.Kind == "crash" {
			d.crash(f)
		}
		return nil, ErrInjected
	}
	fl, ok := d.files[fd]
	if !ok {
		return nil, os.ErrNotExist
	}
	return &reader{h: h, fd: fd, f: fl}, nil
}

func (r *reader) check(n int) error {
	d := r.h.d
	if r.h.stale() {
		return ErrCrashed
	}
	if r.cl {
		return storage.ErrClosed
	}
	if f := d.event(OpRead, r.fd, n); f != nil {
		if f.Kind == "crash" {
			d.crash(f)
		}
		return ErrInjected
	}
	if r.f.removed && d.H.OnReadRemoved != nil {
		d.H.OnReadRemoved(r.fd)
	}
	return nil
}

func (r *reader) Read(p []byte) (int, error) {
	if err := r.check(len(p)); err != nil {
		return 0, err
	}
	if r.pos >= int64(len(r.f.data)) {
		return 0, io.EOF
	}
	n := copy(p, r.f.data[r.pos:])
	r.pos += int64(n)
	return n, nil
}

func (r *reader) ReadAt(p []byte, off int64) (int, error) {
	if err := r.check(len(p)); err != nil {
		return 0, err
	}
	if off < 0 {
		return 0, errors.New("simdisk: negative offset")
	}
	if off >= int64(len(r.f.data)) {
		return 0, io.EOF
	}
	n := copy(p, r.f.data[off:])
	if n < len(p) {
		return n, io.EOF
	}
	return n, nil
}

func (r *reader) Seek(offset int64, whence int) (int64, error) {
	if r.h.stale() {
		return 0, ErrCrashed
	}
	var abs int64
	switch whence {
	case io.SeekStart:
		abs = offset
	case io.SeekCurrent:
		abs = r.pos + offset
	case io.SeekEnd:
		abs = int64(len(r.f.data)) + offset
	default:
		return 0, errors.New("simdisk: invalid whence")
	}
	if abs < 0 {
		return 0, errors.New("simdisk: negative position")
	}
	r.pos = abs
	return abs, nil
}

func (r *reader) Close() error {
	if r.h.stale() {
		return ErrCrashed
	}
	if r.cl {
		return storage.ErrClosed
	}
	r.cl = true
	return nil
}

type writer struct {
	h  *Handle
	fd storage.FileDesc
	f  *file
	cl bool
}

func (h *Handle) Create(fd storage.FileDesc) (storage.Writer, error) {
	d := h.d
	if h.stale() {
		return nil, ErrCrashed
	}
	if !storage.FileDescOk(fd) {
		return nil, storage.ErrInvalidFile
	}
	f := d.event(OpCreate, fd, 0)
	if f != nil && !(f.Kind == "crash" && f.After) {
		if f.Kind == "crash" {
			d.crash(f)
		}
		return nil, ErrInjected
	}
	d.mutate(OpCreate, fd)
	d.gen++
	fl := &file{gen: d.gen}
	if old, ok := d.files[fd]; ok {
		old.removed = true
	}
	d.files[fd] = fl
	if f != nil {
		d.crash(f)
	}
	return &writer{h: h, fd: fd, f: fl}, nil
}

func (w *writer) Write(p []byte) (int, error) {
	d := w.h.d
	if w.h.stale() {
		return 0, ErrCrashed
	}
	if w.cl {
		return 0, storage.ErrClosed
	}
	f := d.event(OpWrite, w.fd, len(p))
	if f != nil {
		switch f.Kind {
		case "crash":
			// a prefix of this write reaches the file
			k := 0
			if len(p) > 0 {
				k = int(f.Img % uint64(len(p)+1))
			}
			if f.After {
				k = len(p)
			}
			d.mutate(OpWrite, w.fd)
			w.f.data = append(w.f.data, p[:k]...)
			d.crash(f)
		case "short":
			k := len(p) / 2
			d.mutate(OpWrite, w.fd)
			w.f.data = append(w.f.data, p[:k]...)
			return k, ErrInjected
		}
		return 0, ErrInjected
	}
	d.mutate(OpWrite, w.fd)
	w.f.data = append(w.f.data, p...)
	return len(p), nil
}

func (w *writer) Sync() error {
	d := w.h.d
	if w.h.stale() {
		return ErrCrashed
	}
	if w.cl {
		return storage.ErrClosed
	}
	f := d.event(OpSync, w.fd, len(w.f.data))
	if f != nil {
		if f.Kind == "crash" {
			if f.After {
				w.f.synced = len(w.f.data)
				if d.H.OnSync != nil {
					d.H.OnSync(w.fd, w.f.data)
				}
			}
			d.crash(f)
		}
		return ErrInjected
	}
	d.mutate(OpSync, w.fd)
	w.f.synced = len(w.f.data)
	if d.H.OnSync != nil {
		d.H.OnSync(w.fd, w.f.data)
	}
	return nil
}

func (w *writer) Close() error {
	d := w.h.d
	if w.h.stale() {
		return ErrCrashed
	}
	if w.cl {
		return storage.ErrClosed
	}
	f := d.event(OpClose, w.fd, 0)
	w.cl = true
	if f != nil {
		if f.Kind == "crash" {
			d.crash(f)
		}
		return ErrInjected
	}
	if d.H.OnClose != nil {
		d.H.OnClose(w.fd, w.f.data)
	}
	return nil
}

func (h *Handle) Remove(fd storage.FileDesc) error {
	d := h.d
	if h.stale() {
		return ErrCrashed
	}
	if !storage.FileDescOk(fd) {
		return storage.ErrInvalidFile
	}
	f := d.event(OpRemove, fd, 0)
	if f != nil && !(f.Kind == "crash" && f.After) {
		if f.Kind == "crash" {
			d.crash(f)
		}
		return ErrInjected
	}
	fl, ok := d.files[fd]
	if !ok {
		if f != nil {
			d.crash(f)
		}
		return os.ErrNotExist
	}
	if d.H.OnRemove != nil {
		d.H.OnRemove(fd)
	}
	d.mutate(OpRemove, fd)
	fl.removed = true
	delete(d.files, fd)
	if f != nil {
		d.crash(f)
	}
	return nil
}

func (h *Handle) Rename(oldfd, newfd storage.FileDesc) error {
	d := h.d
	if h.stale() {
		return ErrCrashed
	}
	if !storage.FileDescOk(oldfd) || !storage.FileDescOk(newfd) {
		return storage.ErrInvalidFile
	}
	if oldfd == newfd {
		return nil
	}
	f := d.event(OpRename, oldfd, 0)
	if f != nil && !(f.Kind == "crash" && f.After) {
		if f.Kind == "crash" {
			d.crash(f)
		}
		return ErrInjected
	}
	fl, ok := d.files[oldfd]
	if !ok {
		if f != nil {
			d.crash(f)
		}
		return os.ErrNotExist
	}
	d.mutate(OpRename, oldfd)
	if old, ok := d.files[newfd]; ok {
		old.removed = true
	}
	d.files[newfd] = fl
	delete(d.files, oldfd)
	if f != nil {
		d.crash(f)
	}
	return nil
}

func (h *Handle) Close() error {
	if h.stale() {
		return ErrCrashed
	}
	return nil
}

// ---- harness side ----

// Data returns the current bytes of a file (not a copy).
func (d *Disk) Data(fd storage.FileDesc) ([]byte, bool) {
	f, ok := d.files[fd]
	if !ok {
		return nil, false
	}
	return f.data, true
}

// Synced returns the durable prefix length of a file.
func (d *Disk) Synced(fd storage.FileDesc) int {
	if f, ok := d.files[fd]; ok {
		return f.synced
	}
	return 0
}

// Gen returns a number that changes whenever the file is re-created.
func (d *Disk) Gen(fd storage.FileDesc) int {
	if f, ok := d.files[fd]; ok {
		return f.gen
	}
	return -1
}

// Meta returns the CURRENT pointer.
func (d *Disk) Meta() storage.FileDesc { return d.meta }

// SetMetaRaw changes CURRENT without an event (damage injection).
func (d *Disk) SetMetaRaw(fd storage.FileDesc) { d.meta = fd }

// Exists reports whether a file exists.
func (d *Disk) Exists(fd storage.FileDesc) bool { _, ok := d.files[fd]; return ok }

// Put installs file contents directly (damage injection, fully durable).
func (d *Disk) Put(fd storage.FileDesc, data []byte) {
	d.gen++
	d.files[fd] = &file{data: data, synced: len(data), gen: d.gen}
}

// Delete removes a file directly (damage injection).
func (d *Disk) Delete(fd storage.FileDesc) {
	if f, ok := d.files[fd]; ok {
		f.removed = true
		delete(d.files, fd)
	}
}

// TotalBytes sums the sizes of files of the given types.
func (d *Disk) TotalBytes(ft storage.FileType) int {
	n := 0
	for fd, f := range d.files {
		if fd.Type&ft != 0 {
			n += len(f.data)
		}
	}
	return n
}

// ImageMode selects the post-crash image model.
type ImageMode int

const (
	// ImagePowerLoss keeps each file's synced prefix; the unsynced tail is
	// lost, kept, cut at an arbitrary byte, or cut and followed by zero or
	// garbage bytes, chosen per file from the seed.
	ImagePowerLoss ImageMode = iota
	// ImageProcessDeath keeps every byte handed to storage.
	ImageProcessDeath
)

type xrng struct{ s uint64 }

func (r *xrng) next() uint64 {
	r.s += 0x9e3779b97f4a7c15
	z := r.s
	z = (z ^ (z >> 30)) * 0xbf58476d1ce4e5b9
	z = (z ^ (z >> 27)) * 0x94d049bb133111eb
	return z ^ (z >> 31)
}

// NextEpoch turns the disk into the durable image a restart would find and
// starts a new epoch. It returns a description of what was done per file.
func (d *Disk) NextEpoch(mode ImageMode, seed uint64, crashed bool) []string {
	var desc []string
	if crashed {
		r := xrng{seed*0x2545f4914f6cdd1d + 7}
		for _, fd := range d.ListFiles(storage.TypeAll) {
			f := d.files[fd]
			tail := len(f.data) - f.synced
			if tail <= 0 || mode == ImageProcessDeath {
				f.synced = len(f.data)
				continue
			}
			v := r.next() % 5
			switch v {
			case 0: // lost
				f.data = f.data[:f.synced:f.synced]
				desc = append(desc, fmt.Sprintf("%s tail(%d) lost", fd, tail))
			case 1: // kept
				desc = append(desc, fmt.Sprintf("%s tail(%d) kept", fd, tail))
			case 2: // cut
				k := int(r.next() % uint64(tail+1))
				k = biasCut(&r, f.synced, tail, k)
				f.data = f.data[: f.synced+k : f.synced+k]
				desc = append(desc, fmt.Sprintf("%s tail(%d) cut at +%d", fd, tail, k))
			case 3, 4: // cut and followed by zero / garbage bytes
				k := int(r.next() % uint64(tail+1))
				k = biasCut(&r, f.synced, tail, k)
				g := int(r.next()%uint64(tail-k+1)) + 1
				nd := append([]byte(nil), f.data[:f.synced+k]...)
				for i := 0; i < g; i++ {
					if v == 3 {
						nd = append(nd, 0)
					} else {
						nd = append(nd, byte(r.next()))
					}
				}
				f.data = nd
				desc = append(desc, fmt.Sprintf("%s tail(%d) cut at +%d then %d %s bytes", fd, tail, k, g, map[uint64]string{3: "zero", 4: "garbage"}[v]))
			}
			f.synced = len(f.data)
		}
	} else {
		for _, f := range d.files {
			f.synced = len(f.data)
		}
	}
	d.locked = false
	d.Epoch++
	return desc
}

// biasCut moves some cut points next to a 32 KiB block boundary (journal and
// manifest framing is block based: the few bytes around a boundary are the
// interesting tear positions and a uniform draw almost never hits them).
func biasCut(r *xrng, synced, tail, k int) int {
	const block = 32 * 1024
	if r.next()%3 != 0 {
		return k
	}
	first := (synced/block + 1) * block
	if first > synced+tail {
		return k
	}
	nb := (synced+tail-first)/block + 1
	b := first + int(r.next()%uint64(nb))*block
	off := b + int(r.next()%17) - 8 - synced
	if off < 0 || off > tail {
		return k
	}
	return off
}
